#!/venv/bin/python
"""False-alarm evaluation: apply a behaviour-preserving change to a scratch worktree and run ALL checks on it.
usage: run_refactor.py <dir with patch.diff> [--scratch=DIR] [--full]   -> JSON {prop: rc, signatures}"""
import json
import os
import subprocess
import sys

VERIF = os.path.dirname(os.path.dirname(os.path.abspath(__file__)))
RUNS = {"C04": 200, "C05": 200, "C06": 160, "C07": 48, "C09": 120, "C10": 1500, "C11": 1500, "C12": 48, "C14": 16, "C15": 6, "C16": 120, "C17": 80, "C18": 32}


def sh(cmd, **k):
    return subprocess.run(cmd, capture_output=True, text=True, **k)


def main():
    d = os.path.abspath(sys.argv[1])
    opts = sys.argv[2:]
    scratch = next((o.split("=")[1] for o in opts if o.startswith("--scratch=")), f"/root/scratch/rf_{os.path.basename(os.path.dirname(d))}_{os.path.basename(d)}")
    sh(["git", "-C", "/repo", "worktree", "remove", "--force", scratch])
    sh(["rm", "-rf", scratch])
    r = sh(["git", "-C", "/repo", "worktree", "add", "-q", "--detach", scratch, "HEAD"])
    assert r.returncode == 0, r.stderr
    out = {"dir": d, "checks": {}}
    try:
        r = sh(["git", "-C", scratch, "apply", os.path.join(d, "patch.diff")])
        if r.returncode != 0:  # the tree moved on since the patch was written (later fix commits): try a 3-way merge
            r = sh(["git", "-C", scratch, "apply", "--3way", os.path.join(d, "patch.diff")])
        out["patch_applies"] = r.returncode == 0
        if r.returncode == 0:
            if "--tests" in opts:
                junit = os.path.join(scratch, ".junit.xml")
                sh(["/venv/bin/python", "-m", "pytest", "-q", "-p", "no:cacheprovider", "--timeout=900", "--continue-on-collection-errors", f"--junitxml={junit}"], cwd=scratch, timeout=3000)
                import xml.etree.ElementTree as ET

                want = set(json.load(open("/root/.vp/BASELINE.json"))["stable_pass"])
                passed = {f"{tc.get('classname')}::{tc.get('name')}" for tc in ET.parse(junit).iter("testcase") if not any(ch.tag in ("failure", "error", "skipped") for ch in tc)}
                out["baseline_missing"] = sorted(want - passed)
                out["tests_passed"] = len(passed)
                os.remove(junit)
            for p, n in RUNS.items():
                env = dict(os.environ, FSIM_REPO=scratch, FSIM_SKIP_DETERMINISM="1")
                cmd = [os.path.join(VERIF, "bin", "check"), p, "--tier", "quick", "--no-shrink"] + ([] if "--full" in opts else ["--runs", str(n)])
                cp = sh(cmd, env=env, timeout=3000)
                sigs = sorted({json.loads(l.strip())["signature"] for l in cp.stdout.splitlines() if l.strip().startswith('{"clause"')})
                out["checks"][p] = {"rc": cp.returncode, "signatures": sigs}
                if cp.returncode == 2:
                    out["checks"][p]["tail"] = cp.stdout[-600:]
    finally:
        sh(["git", "-C", "/repo", "worktree", "remove", "--force", scratch])
        sh(["rm", "-rf", scratch])
    print(json.dumps(out, indent=1))


if __name__ == "__main__":
    main()
