#!/venv/bin/python
"""Sensitivity self-test (not a registered check): apply single-site changes to a scratch worktree of /repo
and require the matching check to report a violation.  usage: run_mutants.py [name-substring ...] [--runs N]"""
import json
import os
import subprocess
import sys
import time

sys.path.insert(0, os.path.dirname(os.path.abspath(__file__)))
from mutants import MUTANTS  # noqa: E402

VERIF = os.path.dirname(os.path.dirname(os.path.abspath(__file__)))
SCRATCH = os.environ.get("FSIM_MUT_DIR", "/root/scratch/mut")


def sh(*a, **k):
    return subprocess.run(a, capture_output=True, text=True, **k)


def main():
    args = [a for a in sys.argv[1:] if not a.startswith("--")]
    runs = None
    for a in sys.argv[1:]:
        if a.startswith("--runs="):
            runs = a.split("=")[1]
    results = []
    for m in MUTANTS:
        if args and not any(x in m["name"] for x in args):
            continue
        sh("git", "-C", "/repo", "worktree", "remove", "--force", SCRATCH)
        sh("rm", "-rf", SCRATCH)
        r = sh("git", "-C", "/repo", "worktree", "add", "-q", "--detach", SCRATCH, "HEAD")
        assert r.returncode == 0, r.stderr
        path = os.path.join(SCRATCH, m["file"])
        src = open(path).read()
        n = src.count(m["old"])
        if n != m.get("count", 1):
            print(f"SKIP {m['name']}: pattern occurs {n} times")
            continue
        open(path, "w").write(src.replace(m["old"], m["new"]))
        for prop in m["props"]:
            t0 = time.time()
            env = dict(os.environ, FSIM_REPO=SCRATCH, FSIM_SKIP_DETERMINISM="1")
            cmd = [os.path.join(VERIF, "bin", "check"), prop, "--tier", "quick", "--no-shrink"]
            if runs or m.get("runs"):
                cmd += ["--runs", str(runs or m["runs"])]
            cp = sh(*cmd, env=env)
            sigs = sorted({json.loads(l.strip())["signature"] for l in cp.stdout.splitlines() if l.strip().startswith('{"clause"')})
            status = "CAUGHT" if cp.returncode == 1 else ("HARNESS" if cp.returncode == 2 else "MISSED")
            print(f"{status:7s} {m['name']:40s} {prop} rc={cp.returncode} {time.time()-t0:5.1f}s {sigs[:3]}", flush=True)
            if cp.returncode == 2:
                print(cp.stdout[-1500:], cp.stderr[-500:])
            results.append((m["name"], prop, status))
    sh("git", "-C", "/repo", "worktree", "remove", "--force", SCRATCH)
    sh("rm", "-rf", SCRATCH)
    missed = [r for r in results if r[2] != "CAUGHT"]
    print(f"{len(results) - len(missed)}/{len(results)} caught")
    return 1 if missed else 0


if __name__ == "__main__":
    sys.exit(main())
