"""Single-site mutants used by run_mutants.py: each keeps the 42 baseline tests green (checked separately) and
breaks the named property."""
PY = "py/formak/python.py"
RT = "py/formak/runtime.py"
MF = "cpp/runtime/include/formak/runtime/ManagedFilter.h"

MUTANTS = [
    # ---- C04
    {"name": "c04_drop_control_noise", "props": ["C04"], "file": PY, "old": "next_covariance = next_state_covariance + next_control_covariance", "new": "next_covariance = next_state_covariance"},
    {"name": "c04_G_not_transposed", "props": ["C04"], "file": PY, "old": "G_t, np.matmul(covariance.data, G_t.transpose())", "new": "G_t, np.matmul(covariance.data, G_t)"},
    {"name": "c04_inplace_covariance", "props": ["C04"], "file": PY, "old": "        next_covariance = next_state_covariance + next_control_covariance\n", "new": "        next_covariance = next_state_covariance + next_control_covariance\n        covariance.data[...] = next_covariance\n"},
    {"name": "c04_noise_declaration_order", "props": ["C04"], "file": PY, "old": "        for iIdx, iSymbol in enumerate(self.arglist_control):\n            for jIdx, jSymbol in enumerate(self.arglist_control):\n                if (iSymbol, jSymbol) in process_noise:", "new": "        for iIdx, iSymbol in enumerate(list(process_noise.keys())):\n            for jIdx, jSymbol in enumerate(list(process_noise.keys())):\n                if (iSymbol, jSymbol) in process_noise:"},
    {"name": "c04_control_jacobian_stride", "props": ["C04"], "file": PY, "old": "result[row, col] = computed_jacobian[row * self.control_size + col]", "new": "result[row, col] = computed_jacobian[row * self.state_size + col] if row * self.state_size + col < len(computed_jacobian) else 0.0"},
    {"name": "c04_memoised_jacobian", "props": ["C04"], "file": PY, "old": "    def process_jacobian(self, dt, state, control):\n", "new": "    def process_jacobian(self, dt, state, control):\n        if getattr(self, '_jac_cache', None) is not None and self._jac_cache[0] == dt:\n            return self._jac_cache[1]\n        self._jac_cache = (dt, self._process_jacobian_impl(dt, state, control))\n        return self._jac_cache[1]\n\n    def _process_jacobian_impl(self, dt, state, control):\n"},
    # ---- C05
    {"name": "c05_S_without_Q", "props": ["C05"], "file": PY, "old": "            + np.diag(Q_t.data.flatten())\n", "new": ""},
    {"name": "c05_innovation_sign", "props": ["C05"], "file": PY, "old": "sensor_reading.data - expected_reading.data", "new": "expected_reading.data - sensor_reading.data"},
    {"name": "c05_gain_without_Ht", "props": ["C05"], "file": PY, "old": "covariance.data, np.matmul(H_t.transpose(), S_inv)", "new": "covariance.data, np.matmul(H_t.transpose(), S_inv) * 0.5"},
    {"name": "c05_record_S_before_Q", "props": ["C05"], "file": PY, "old": "        assert_valid_covariance(S_t, name=\"Sensor Uncertainty\")\n", "new": "        assert_valid_covariance(S_t, name=\"Sensor Uncertainty\")\n        self.sensor_prediction_uncertainty[sensor_key] = S_t - np.diag(Q_t.data.flatten())\n"},
    {"name": "c05_reading_noise_reversed", "props": ["C05"], "file": PY, "old": "            + np.diag(Q_t.data.flatten())\n", "new": "            + np.diag(Q_t.data.flatten()[::-1])\n"},
    # ---- C06
    {"name": "c06_ge", "props": ["C06"], "file": PY, "old": "return normalized_innovation > expected_innovation", "new": "return normalized_innovation >= expected_innovation"},
    {"name": "c06_sqrt2_times_m", "props": ["C06"], "file": PY, "old": "editing_threshold * sqrt(2 * sensor_size) + sensor_size", "new": "editing_threshold * sqrt(2) * sensor_size + sensor_size"},
    {"name": "c06_missing_plus_m", "props": ["C06"], "file": PY, "old": "editing_threshold * sqrt(2 * sensor_size) + sensor_size", "new": "editing_threshold * sqrt(2 * sensor_size)"},
    {"name": "c06_disabled_still_filters", "props": ["C06"], "file": PY, "old": "        if self.config.innovation_filtering is None:\n            return False\n", "new": "        if self.config.innovation_filtering is None:\n            self = type('c', (), {'config': type('d', (), {'innovation_filtering': 5.0})})\n"},
    {"name": "c06_discard_symmetrises_cov", "props": ["C06"], "file": PY, "old": "            return StateAndCovariance(state, covariance)\n", "new": "            return StateAndCovariance(state, self.Covariance.from_data(covariance.data * (1.0 + 1e-12)))\n"},
    # ---- C09
    {"name": "c09_absolute_gate", "props": ["C09"], "file": PY, "old": "negative_tol * scale", "new": "-1e-15"},
    {"name": "c09_update_asymmetric", "props": ["C09"], "file": PY, "old": "        next_state = state.data + np.matmul(K_t, innovation)\n", "new": "        next_state = state.data + np.matmul(K_t, innovation)\n        next_covariance = covariance.data - np.matmul(K_t, np.matmul(H_t, covariance.data)) * np.triu(np.ones_like(covariance.data) * (1 + 1e-6), 1) - np.matmul(K_t, np.matmul(H_t, covariance.data)) * np.tril(np.ones_like(covariance.data))\n"},
    # ---- C10
    {"name": "c10_py_ceil", "props": ["C10"], "file": RT, "old": "expected_iterations = abs(floor((output_time - self.current_time) / max_dt))", "new": "expected_iterations = abs(floor((output_time - self.current_time) / max_dt + 0.5))"},
    {"name": "c10_py_drop_remainder", "props": ["C10"], "file": RT, "old": "if abs(output_time - iter_time) >= 1e-9:", "new": "if abs(output_time - iter_time) >= 1e-3:"},
    {"name": "c10_py_backward_hardwired", "props": ["C10"], "file": RT, "old": "max_dt = -max_dt", "new": "max_dt = -0.1"},
    {"name": "c10_cpp_sign", "props": ["C10"], "file": MF, "count": 2, "old": "      if (state.currentTime > outputTime) {\n        return -Impl::Tag::max_dt_sec;\n      }\n      return Impl::Tag::max_dt_sec;", "new": "      if (state.currentTime >= outputTime) {\n        return Impl::Tag::max_dt_sec;\n      }\n      return -Impl::Tag::max_dt_sec;"},
    {"name": "c10_cpp_remainder_threshold", "props": ["C10"], "file": MF, "count": 2, "old": "if (std::abs(outputTime - iterTime) >= 1e-9) {", "new": "if (std::abs(outputTime - iterTime) >= 1e-6) {"},
    # ---- C11
    {"name": "c11_py_hold_output_state", "props": ["C11"], "file": RT, "old": "        _, state_and_variance = self._process_model(output_time, control)\n        return state_and_variance", "new": "        self.current_time, state_and_variance = self._process_model(output_time, control)\n        self.state, self.covariance = state_and_variance\n        return state_and_variance"},
    {"name": "c11_py_no_time_advance", "props": ["C11"], "file": RT, "old": "            self.current_time, (self.state, self.covariance) = self._process_model(", "new": "            _, (self.state, self.covariance) = self._process_model("},
    {"name": "c11_py_sort_readings", "props": ["C11"], "file": RT, "old": "        for sensor_reading in readings:\n            assert isinstance(sensor_reading, StampedReading)", "new": "        for sensor_reading in sorted(readings, key=lambda r: r.timestamp):\n            assert isinstance(sensor_reading, StampedReading)"},
    {"name": "c11_py_skip_stale", "props": ["C11"], "file": RT, "old": "            assert isinstance(sensor_reading, StampedReading)\n", "new": "            assert isinstance(sensor_reading, StampedReading)\n            if sensor_reading.timestamp < self.current_time - 1.0:\n                continue\n"},
    {"name": "c11_cpp_hold_output", "props": ["C11"], "file": MF, "old": "    ScopeTimer s(&_timeLog.tickTime);\n\n    return processUpdate(outputTime).state;", "new": "    ScopeTimer s(&_timeLog.tickTime);\n\n    _state = processUpdate(outputTime);\n    return _state.state;"},
    {"name": "c11_py_missing_control_allowed", "props": ["C11"], "file": RT, "old": "        if control is None and self._impl.control_size > 0:", "new": "        if control is None and self._impl.control_size > 1:"},
]
