#!/bin/bash
# runs the thorough tier of every check once (registered thorough_cmd), prints exit codes
# usage: thorough_all.sh [seed] ["C04 C05 ..."]
cd "$(dirname "$0")/.."
props=${2:-"C04 C05 C06 C07 C09 C10 C11 C12 C14 C15 C16 C17 C18"}
for p in $props; do
  out=$(bin/check $p --tier thorough --seed ${1:-0} 2>&1); rc=$?
  echo "$p rc=$rc $(echo "$out" | grep -E 'tier=' | head -1)"
  if [ $rc -ne 0 ]; then echo "$out" | grep -E -A6 "VIOLATION|^   \{|HARNESS|Error|mismatch" | head -24; fi
done
echo THOROUGH DONE
