#!/venv/bin/python
"""Confirm and evaluate one seeded change.
usage: run_seeded.py <dir with patch.diff, demo.py|demo.sh, meta.json> <property> [--tests] [--props C05,C09] [--scratch DIR] [--runs N]
Steps (all in a scratch worktree of /repo, never in /repo itself): demo on the clean tree (must pass), apply patch, demo (must fail),
optionally the baseline suite (stable_pass must still pass), then the registered quick check(s) with FSIM_REPO pointing at the patched tree."""
import json
import os
import subprocess
import sys
import time

VERIF = os.path.dirname(os.path.dirname(os.path.abspath(__file__)))


def sh(cmd, **k):
    return subprocess.run(cmd, capture_output=True, text=True, **k)


def demo(d, root):
    env = dict(os.environ, REPO_ROOT=root, PYTHONPATH=os.path.join(root, "py"), PYTHONDONTWRITEBYTECODE="1", PYTHONWARNINGS="ignore")
    if os.path.exists(os.path.join(d, "demo.py")):
        cp = sh(["/venv/bin/python", os.path.join(d, "demo.py")], cwd=root, env=env, timeout=1800)
    else:
        cp = sh(["bash", os.path.join(d, "demo.sh")], cwd=root, env=env, timeout=1800)
    return cp.returncode, (cp.stdout + cp.stderr)[-400:]


def main():
    d = os.path.abspath(sys.argv[1])
    prop = sys.argv[2]
    opts = sys.argv[3:]
    scratch = next((o.split("=")[1] for o in opts if o.startswith("--scratch=")), f"/root/scratch/seedrun_{os.path.basename(os.path.dirname(d))}_{os.path.basename(d)}")
    props = next((o.split("=")[1].split(",") for o in opts if o.startswith("--props=")), [prop])
    runs = next((o.split("=")[1] for o in opts if o.startswith("--runs=")), None)
    out = {"dir": d, "property": prop}
    sh(["git", "-C", "/repo", "worktree", "remove", "--force", scratch])
    sh(["rm", "-rf", scratch])
    r = sh(["git", "-C", "/repo", "worktree", "add", "-q", "--detach", scratch, "HEAD"])
    assert r.returncode == 0, r.stderr
    try:
        rc0, o0 = demo(d, scratch)
        out["demo_clean_rc"] = rc0
        r = sh(["git", "-C", scratch, "apply", os.path.join(d, "patch.diff")])
        if r.returncode != 0:  # the tree moved on since the patch was written (later fix commits): try a 3-way merge
            r = sh(["git", "-C", scratch, "apply", "--3way", os.path.join(d, "patch.diff")])
        out["patch_applies"] = r.returncode == 0
        if r.returncode != 0:
            out["apply_error"] = r.stderr[-300:]
            print(json.dumps(out, indent=1))
            return 1
        rc1, o1 = demo(d, scratch)
        out["demo_patched_rc"] = rc1
        out["demo_patched_tail"] = o1[-200:]
        if "--tests" in opts:
            t0 = time.time()
            junit = os.path.join(scratch, ".junit.xml")
            sh(["/venv/bin/python", "-m", "pytest", "-q", "-p", "no:cacheprovider", "--timeout=900", "--continue-on-collection-errors", f"--junitxml={junit}"], cwd=scratch, timeout=3000)
            import xml.etree.ElementTree as ET

            want = set(json.load(open("/root/.vp/BASELINE.json"))["stable_pass"])
            passed = set()
            for tc in ET.parse(junit).iter("testcase"):
                if not any(ch.tag in ("failure", "error", "skipped") for ch in tc):
                    passed.add(f"{tc.get('classname')}::{tc.get('name')}")
            out["baseline_missing"] = sorted(want - passed)
            out["tests_wall_s"] = round(time.time() - t0)
            os.remove(junit)
        out["checks"] = {}
        for p in props:
            t0 = time.time()
            env = dict(os.environ, FSIM_REPO=scratch, FSIM_SKIP_DETERMINISM="1")
            cmd = [os.path.join(VERIF, "bin", "check"), p, "--tier", "quick"] + (["--runs", runs] if runs else [])
            cp = sh(cmd, env=env, timeout=3000)
            sigs = sorted({json.loads(l.strip())["signature"] for l in cp.stdout.splitlines() if l.strip().startswith('{"clause"')})
            out["checks"][p] = {"rc": cp.returncode, "signatures": sigs, "wall_s": round(time.time() - t0, 1)}
            if cp.returncode == 2:
                out["checks"][p]["tail"] = cp.stdout[-800:]
    finally:
        sh(["git", "-C", "/repo", "worktree", "remove", "--force", scratch])
        sh(["rm", "-rf", scratch])
    print(json.dumps(out, indent=1))
    return 0


if __name__ == "__main__":
    sys.exit(main())
