#!/bin/bash
# usage: mutant_tree.sh <dir> revert <commit> | patch <file>
# Creates a scratch git worktree of /repo HEAD at <dir> with one change applied (never touches /repo's working tree).
set -e
dir="$1"; mode="$2"; arg="$3"
git -C /repo worktree remove --force "$dir" 2>/dev/null || true
rm -rf "$dir"
git -C /repo worktree add -q --detach "$dir" HEAD
if [ "$mode" = revert ]; then
  git -C "$dir" revert -n "$arg" >/dev/null
elif [ "$mode" = patch ]; then
  git -C "$dir" apply "$arg"
fi
echo "$dir ready ($mode $arg)"
