#!/bin/bash
# usage: soak.sh <first_seed> <last_seed> [props...]  -- runs the quick tier of every check for a range of batch seeds; prints non-zero exits
first=$1; last=$2; shift 2
props=${@:-C04 C05 C06 C07 C09 C10 C11 C12 C14 C15 C16 C17 C18}
cd "$(dirname "$0")/.."
bad=0
for seed in $(seq $first $last); do
  for p in $props; do
    out=$(bin/check $p --tier quick --seed $seed 2>&1); rc=$?
    line=$(echo "$out" | grep -E "tier=" | head -1)
    echo "seed=$seed $p rc=$rc $line"
    if [ $rc -ne 0 ]; then bad=$((bad+1)); echo "$out" | grep -E "VIOLATION|^   \{|HARNESS|Error|mismatch" | head -8; fi
  done
done
echo "SOAK DONE non-zero exits: $bad"
