import os
import sys

sys.path.insert(0, os.path.dirname(os.path.dirname(os.path.abspath(__file__))))
from fsim.check import main  # noqa: E402

if __name__ == "__main__":
    sys.exit(main())
