// fsim W1 C++ leg: the REAL formak::runtime::ManagedFilter over a token-recording stand-in Impl.
// Compiled once per Tag configuration (-DHAS_CTL / -DHAS_CAL); the max_dt menu is a template parameter.
// stdin:  NEW <k> <t0> <state_tok> <cov_tok> <cal_id>
//         TICK <t_out> <ctl|-1> <budget> <n> <has_list> {<t_i> <sensor> <rid>}*
// stdout: T <i> / P <dt> <sin> <cin> <sout> <cout> <ctl> <cal> / S <sensor> <rid> <sin> <cin> <sout> <cout> <cal> / R <s> <c> / X
#include <formak/runtime/ManagedFilter.h>

#include <cstdint>
#include <cstdio>
#include <cstdlib>
#include <cstring>
#include <iostream>
#include <sstream>
#include <string>
#include <type_traits>
#include <vector>

static constexpr double MENU[] = {0.1, 0.05, 0.01, 0.25, 0.3, 1.0, 1e-3, 2.0, 0.07};

static uint64_t splitmix64(uint64_t x) {
  x += 0x9E3779B97F4A7C15ULL;
  uint64_t z = x;
  z = (z ^ (z >> 30)) * 0xBF58476D1CE4E5B9ULL;
  z = (z ^ (z >> 27)) * 0x94D049BB133111EBULL;
  return z ^ (z >> 31);
}
static uint64_t mix3(uint64_t a, uint64_t b, uint64_t c) {
  uint64_t h = 0x243F6A8885A308D3ULL;
  h = splitmix64(h ^ a);
  h = splitmix64(h ^ b);
  h = splitmix64(h ^ c);
  return h;
}
static uint64_t mix4(uint64_t a, uint64_t b, uint64_t c, uint64_t d) {
  uint64_t h = 0x243F6A8885A308D3ULL;
  h = splitmix64(h ^ a);
  h = splitmix64(h ^ b);
  h = splitmix64(h ^ c);
  h = splitmix64(h ^ d);
  return h;
}
static uint64_t dbits(double d) {
  uint64_t u;
  std::memcpy(&u, &d, sizeof u);
  return u;
}

struct SV {
  uint64_t s = 0, c = 0;
};
struct Control {
  long id = -1;
};
struct Calibration {
  long id = -1;
};
static long g_budget = 0, g_calls = 0;
static void spend() {
  if (g_calls >= g_budget) {
    std::printf("X\n");
    std::fflush(stdout);
    std::exit(3);
  }
  ++g_calls;
}

#ifdef HAS_CAL
#define CAL_ARG , const Calibration& cal
#define CAL_ID cal.id
using CAL_T = Calibration;
#else
#define CAL_ARG
#define CAL_ID -1L
using CAL_T = std::false_type;
#endif
#ifdef HAS_CTL
#define CTL_ARG , const Control& ctl
#define CTL_ID ctl.id
using CTL_T = Control;
#else
#define CTL_ARG
#define CTL_ID -1L
using CTL_T = std::false_type;
#endif

template <int K>
struct StampedReadingBase;

template <int K>
struct Impl {
  struct Tag {
    using StateAndVarianceT = SV;
    using CalibrationT = CAL_T;
    using ControlT = CTL_T;
    using StampedReadingBaseT = StampedReadingBase<K>;
    static constexpr double max_dt_sec = MENU[K];
  };
  SV process_model(double dt, const SV& in CAL_ARG CTL_ARG) const {
    spend();
    SV out{mix3(in.s, 0x50, dbits(dt)), mix3(in.c, 0x50, dbits(dt))};
    std::printf("P %a %llu %llu %llu %llu %ld %ld\n", dt, (unsigned long long)in.s, (unsigned long long)in.c,
                (unsigned long long)out.s, (unsigned long long)out.c, (long)CTL_ID, (long)CAL_ID);
    return out;
  }
  template <typename R>
  SV sensor_model(const SV& in CAL_ARG, const R& r) const {
    spend();
    SV out{mix4(in.s, 0x53, (uint64_t)r.sensor, (uint64_t)r.rid), mix4(in.c, 0x53, (uint64_t)r.sensor, (uint64_t)r.rid)};
    if (r.rid % 5 == 0) out = in;  // a discarded reading: estimate handed back unchanged (same convention as the Python stand-in)
    std::printf("S %ld %ld %llu %llu %llu %llu %ld\n", r.sensor, r.rid, (unsigned long long)in.s, (unsigned long long)in.c,
                (unsigned long long)out.s, (unsigned long long)out.c, (long)CAL_ID);
    return out;
  }
};

template <int K>
struct StampedReadingBase {
  virtual SV sensor_model(const Impl<K>& impl, const SV& s CAL_ARG) const = 0;
  virtual ~StampedReadingBase() = default;
};
template <int K>
struct Reading : StampedReadingBase<K> {
  long sensor, rid;
  Reading(long s, long r) : sensor(s), rid(r) {}
  SV sensor_model(const Impl<K>& impl, const SV& s CAL_ARG) const override {
#ifdef HAS_CAL
    return impl.sensor_model(s, cal, *this);
#else
    return impl.sensor_model(s, *this);
#endif
  }
};

#ifdef NEGATIVE_MISSING_CONTROL
// must NOT compile when the filter has control inputs: tick without control
int main() {
  using MF = formak::runtime::ManagedFilter<Impl<0>>;
#ifdef HAS_CAL
  MF mf(0.0, SV{}, Calibration{});
#else
  MF mf(0.0, SV{});
#endif
  mf.tick(1.0);
  return 0;
}
#else

template <int K>
int run(std::istream& in, double t0, uint64_t s0, uint64_t c0, long cal_id) {
  using MF = formak::runtime::ManagedFilter<Impl<K>>;
  static_assert(MF::compatible);
#ifdef HAS_CAL
  MF mf(t0, SV{s0, c0}, Calibration{cal_id});
#else
  (void)cal_id;
  MF mf(t0, SV{s0, c0});
#endif
  std::string line;
  int tick = 0;
  while (std::getline(in, line)) {
    std::istringstream ls(line);
    std::string cmd, tok;
    ls >> cmd;
    if (cmd != "TICK") continue;
    ls >> tok;
    double t_out = std::strtod(tok.c_str(), nullptr);
    long ctl, n, has_list;
    ls >> ctl >> g_budget >> n >> has_list;
    g_calls = 0;
    std::vector<typename MF::StampedReading> readings;
    for (long i = 0; i < n; ++i) {
      long sensor, rid;
      ls >> tok >> sensor >> rid;
      readings.push_back(MF::wrap(std::strtod(tok.c_str(), nullptr), Reading<K>(sensor, rid)));
    }
    std::printf("T %d\n", tick++);
    SV out;
#ifdef HAS_CTL
    Control c{ctl};
    if (n > 0 || has_list) {
      out = mf.tick(t_out, c, readings);
    } else {
      out = mf.tick(t_out, c);
    }
#else
    (void)ctl;
    if (n > 0 || has_list) {
      out = mf.tick(t_out, readings);
    } else {
      out = mf.tick(t_out);
    }
#endif
    std::printf("R %llu %llu\n", (unsigned long long)out.s, (unsigned long long)out.c);
  }
  std::fflush(stdout);
  return 0;
}

int main() {
  std::string line;
  if (!std::getline(std::cin, line)) return 2;
  std::istringstream ls(line);
  std::string cmd, tok;
  int k;
  unsigned long long s0, c0;
  long cal_id;
  ls >> cmd >> k >> tok >> s0 >> c0 >> cal_id;
  double t0 = std::strtod(tok.c_str(), nullptr);
  switch (k) {
    case 0: return run<0>(std::cin, t0, s0, c0, cal_id);
    case 1: return run<1>(std::cin, t0, s0, c0, cal_id);
    case 2: return run<2>(std::cin, t0, s0, c0, cal_id);
    case 3: return run<3>(std::cin, t0, s0, c0, cal_id);
    case 4: return run<4>(std::cin, t0, s0, c0, cal_id);
    case 5: return run<5>(std::cin, t0, s0, c0, cal_id);
    case 6: return run<6>(std::cin, t0, s0, c0, cal_id);
    case 7: return run<7>(std::cin, t0, s0, c0, cal_id);
    case 8: return run<8>(std::cin, t0, s0, c0, cal_id);
  }
  return 2;
}
#endif
