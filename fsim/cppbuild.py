"""Compile C++ legs from the headers of the current tree into a private temp dir (removed at exit)."""
from __future__ import annotations

import atexit
import os
import shutil
import subprocess
import tempfile
from concurrent.futures import ThreadPoolExecutor

from fsim import core

CXX = os.environ.get("FSIM_CXX", "g++")
FLAGS = ["-std=c++20", "-O0", "-ffp-contract=off", "-w"]
_TMP = []
_OWNER = os.getpid()


def tmpdir(prefix="fsim_cpp_"):
    base = os.environ.get("FSIM_TMP") or tempfile.gettempdir()
    d = tempfile.mkdtemp(prefix=prefix, dir=base)
    _TMP.append(d)
    return d


def _cleanup():
    if os.getpid() != _OWNER:
        return
    for d in _TMP:
        shutil.rmtree(d, ignore_errors=True)


atexit.register(_cleanup)


def includes():
    return [
        "-I" + os.path.join(core.VERIF_DIR, "fsim", "cpp"),  # <Eigen/Dense> stand-in
        "-I" + os.path.join(core.REPO, "cpp", "runtime", "include"),  # real ManagedFilter.h
        "-I" + os.path.join(core.REPO, "cpp", "include"),  # real innovation_filtering.h
    ]


def compile_cpp(sources, out, defines=(), extra_inc=(), timeout=300):
    cmd = [CXX, *FLAGS, *includes(), *[f"-I{i}" for i in extra_inc], *[f"-D{d}" for d in defines], *sources, "-o", out]  # sources may start with "-c"
    try:
        cp = subprocess.run(cmd, capture_output=True, text=True, timeout=timeout)
    except subprocess.TimeoutExpired:
        return False, "compiler timeout"
    if cp.returncode != 0:
        errs = [l for l in cp.stderr.splitlines() if "error" in l]
        return False, (errs[0] if errs else cp.stderr[-400:])
    return True, ""


def build_rt_drivers():
    """4 Tag configurations of the recording stand-in under the real ManagedFilter.h + negative compile tests."""
    d = tmpdir("fsim_rt_")
    src = os.path.join(core.VERIF_DIR, "fsim", "cpp", "rt_driver.cpp")
    jobs = []
    for ctl in (False, True):
        for cal in (False, True):
            defs = (["HAS_CTL"] if ctl else []) + (["HAS_CAL"] if cal else [])
            jobs.append(((ctl, cal), defs, os.path.join(d, f"rt_{int(ctl)}{int(cal)}")))
    for cal in (False, True):
        defs = ["HAS_CTL", "NEGATIVE_MISSING_CONTROL"] + (["HAS_CAL"] if cal else [])
        jobs.append((("neg", cal), defs, os.path.join(d, f"neg_{int(cal)}")))
    out = {}

    def one(job):
        key, defs, path = job
        ok, err = compile_cpp([src], path, defs)
        return key, {"bin": path if ok else None, "error": None if ok else err, "compiled": ok}

    with ThreadPoolExecutor(max_workers=6) as ex:
        for key, info in ex.map(one, jobs):
            out[key] = info
    return out
