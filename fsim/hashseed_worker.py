"""Worker for W5: runs in a FRESH interpreter under a given PYTHONHASHSEED. stdin: JSON {models:[...], variants:[...]};
stdout: one JSON line with sha256 digests of generated header/source and the Python layouts, per (model, variant)."""
import contextlib
import hashlib
import io
import json
import os
import random
import sys

sys.path.insert(0, os.path.dirname(os.path.dirname(os.path.abspath(__file__))))


def permuted(d, variant):
    """Same definition, different declaration orders / containers / dict insertion orders."""
    rng = random.Random(variant["shuffle"])

    def sh(xs):
        xs = list(xs)
        rng.shuffle(xs)
        return xs

    out = dict(d)
    out["state"], out["control"], out["calibration"] = sh(d["state"]), sh(d["control"]), sh(d["calibration"])
    out["containers"] = variant["containers"]
    out["state_model"] = {k: d["state_model"][k] for k in sh(d["state_model"])}
    out["process_noise"] = {k: d["process_noise"][k] for k in sh(d["process_noise"])}
    out["calibration_map"] = {k: d["calibration_map"][k] for k in sh(d["calibration_map"])}
    out["sensors"] = {}
    for key in sh(d["sensors"]):
        sd = d["sensors"][key]
        out["sensors"][key] = {"readings": {r: sd["readings"][r] for r in sh(sd["readings"])}, "noise": {r: sd["noise"][r] for r in sh(sd["noise"])}, "key_kind": sd.get("key_kind", "str")}
    return out


def sha(s):
    return hashlib.sha256(s.encode()).hexdigest()


_SHARED_CFG = {}


STALE = "// output of an earlier, longer build of another filter\n" * 6000  # ~350 kB, longer than anything generated here


def generate_once(d, cse, as_dict=False, dirty=False):
    """dirty: the output paths already hold the (longer) output of an earlier build (storage fault: stale files)"""
    from formak import cpp, python

    from fsim import models
    from fsim.worlds.entry import FakeFS

    b = models.build(d)
    fs = FakeFS()
    if dirty:
        for p_ in (fs.header, fs.source):
            with open(p_, "w") as f_:
                f_.write(STALE)
    argv = sys.argv
    sys.argv = ["generator.py", "--header", fs.header, "--source", fs.source, "--namespace", "ns"]
    cpp.open = fs.open
    # observation only: the generator object the entry point renders, to render it a second time afterwards
    seen_gen = []
    real_impl = getattr(cpp, "_compile_impl", None)
    if real_impl is not None:
        def spy_impl(args, *, generator, _real=real_impl):
            seen_gen.append(generator)
            return _real(args, generator=generator)
        cpp._compile_impl = spy_impl
    try:
        with contextlib.redirect_stdout(io.StringIO()):
            if as_dict:
                # one plain dict, written once by the user and reused for every generation of the session
                if not _SHARED_CFG:
                    _SHARED_CFG.update({"common_subexpression_elimination": cse, "max_dt_sec": 0.02, "innovation_filtering": 4.0})
                ccfg = _SHARED_CFG
            else:
                ccfg = cpp.Config(common_subexpression_elimination=cse, max_dt_sec=0.02, innovation_filtering=4.0)
            cpp.compile_ekf(b["model"], b["process_noise"], b["sensor_models"], b["sensor_noises"], b["calibration_map"], config=ccfg)
            pe = python.compile_ekf(b["model"], b["process_noise"], b["sensor_models"], b["sensor_noises"], b["calibration_map"], config=python.Config(common_subexpression_elimination=cse))
    finally:
        sys.argv = argv
        del cpp.open
        if real_impl is not None:
            cpp._compile_impl = real_impl
    rerender = None
    if seen_gen and hasattr(cpp, "header_from_ast") and hasattr(cpp, "source_from_ast"):
        try:
            with contextlib.redirect_stdout(io.StringIO()):
                rerender = ("\n".join(cpp.header_from_ast(generator=seen_gen[0])), "\n".join(cpp.source_from_ast(generator=seen_gen[0])))
        except Exception as e:  # noqa: BLE001
            rerender = (f"rerender raised {type(e).__name__}", "")
    pm = getattr(pe, "_state_model", None)
    if pm is None:
        with contextlib.redirect_stdout(io.StringIO()):
            pm = python.compile(b["model"], b["calibration_map"], config=python.Config(common_subexpression_elimination=cse))
    # behavioural probe of the layout: named inputs -> named outputs at a fixed point (9 significant digits)
    import numpy as np

    def fmt(a):
        return ["%.9g" % v for v in np.asarray(a, dtype=float).flatten()]

    names = sorted(d["state"])
    st = pe.State(**{n: 0.3 + 0.1 * i for i, n in enumerate(names)})
    ctl = pe.Control(**{n: -0.2 + 0.15 * i for i, n in enumerate(sorted(d["control"]))})
    probe = {}
    with contextlib.redirect_stdout(io.StringIO()):
        try:
            o = pe.process_model(0.07, st, pe.Covariance(), ctl)
            probe["predict"] = [fmt(o[0].data), fmt(o[1].data)]
            for k_ in sorted(pe.sensor_models):
                probe["h:" + str(k_)] = fmt(pe.sensor_models[k_].model(st).data)
                probe["H:" + str(k_)] = fmt(pe.sensor_jacobian(k_, st))
        except Exception as e:  # noqa: BLE001
            probe["error"] = type(e).__name__
    layout = {
        "probe": probe,
        "Model.arglist": [str(a) for a in pm.arglist],
        "EKF.state": [str(a) for a in pe.arglist_state], "EKF.control": [str(a) for a in pe.arglist_control], "EKF.calibration": [str(a) for a in pe.arglist_calibration],
        "readings": {k: [str(r) for r in pe.sensor_models[k].readings] for k in sorted(pe.sensor_models)},
        "process_noise": pe.process_noise.tolist(),
        "sensor_noises": {k: pe.sensor_noises[k].data.tolist() for k in sorted(pe.sensor_noises)},
    }
    files = fs.files
    fs.close()
    rerender_equal = True if rerender is None else (rerender[0] == files[fs.header] and rerender[1] == files[fs.source])
    # the Model-only generator path (cpp.compile) is part of the same promise
    fs2 = FakeFS()
    sys.argv = ["generator.py", "--header", fs2.header, "--source", fs2.source, "--namespace", "ns"]
    cpp.open = fs2.open
    try:
        with contextlib.redirect_stdout(io.StringIO()):
            cpp.compile(b["model"], b["calibration_map"], config=cpp.Config(common_subexpression_elimination=cse))
    finally:
        sys.argv = argv
        del cpp.open
    files2 = fs2.files
    fs2.close()
    files[fs.header] = files[fs.header] + "\n// ---- Model-only header\n" + files2[fs2.header]
    files[fs.source] = files[fs.source] + "\n// ---- Model-only source\n" + files2[fs2.source]
    return {"rerender_equal": rerender_equal, "header": sha(files[fs.header]), "source": sha(files[fs.source]), "layout": sha(json.dumps(layout, sort_keys=True)),
            "header_text": files[fs.header] if os.environ.get("FSIM_KEEP_TEXT") else None, "source_text": files[fs.source] if os.environ.get("FSIM_KEEP_TEXT") else None}


def main():
    job = json.load(sys.stdin)
    out = []
    order = job.get("order") or list(range(len(job["models"])))
    for mi in order:
        d = job["models"][mi]
        for vi, variant in enumerate(job["variants"]):
            dv = permuted(d, variant)
            try:
                a = generate_once(dv, job["cse"], job.get("config_as_dict", False))
                # state leaking between generations, and stale files at the output paths: checked once per model
                b = generate_once(dv, job["cse"], job.get("config_as_dict", False), dirty=True) if vi == 0 else a
                rec = {"model": mi, "variant": vi, "header": a["header"], "source": a["source"], "layout": a["layout"], "twice_equal": (a["header"], a["source"], a["layout"]) == (b["header"], b["source"], b["layout"]),
                       "rerender_equal": a["rerender_equal"] and b["rerender_equal"]}
                if a["header_text"] is not None:
                    rec["header_text"], rec["source_text"] = a["header_text"], a["source_text"]
            except Exception as e:  # noqa: BLE001
                rec = {"model": mi, "variant": vi, "error": f"{type(e).__name__}: {str(e)[:200]}"}
            out.append(rec)
    print("RESULT " + json.dumps(out))


if __name__ == "__main__":
    main()
