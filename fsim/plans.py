"""Per-property plans: which worlds run, how many runs per tier, evidence texts."""

RT_COMPONENTS = {
    "real": ["formak.runtime.ManagedFilter / StampedReading (py/formak/runtime.py)", "formak::runtime::ManagedFilter (cpp/runtime/include/formak/runtime/ManagedFilter.h, g++ 12 -std=c++20 -O0)"],
    "stub": ["wrapped filter: token-recording stand-in exposing config.max_dt_sec, control_size, process_model, sensor_model, make_reading (Python) / Impl with Tag (C++)"],
}

EKF_COMPONENTS = {
    "real": ["formak.python.compile_ekf / ExtendedKalmanFilter / SensorModel / Model / BasicBlock", "formak.common named_vector / named_covariance / model_validation", "formak.ui.Model", "formak.runtime.ManagedFilter (rt_ekf leg)", "numpy, sympy (trusted)"],
    "stub": [],
}
EKF_ASSUMPTIONS = ["domain guards on the reference side: |x|<=1e4, |P|<=1e6, cond(S)<=1e5 (run truncated at that op, earlier ops stay checked)", "tolerance 1e-9 (state, innovation, S) / 1e-8 (covariance) relative to 1+max|ref|", "reference EKF re-seeded from the SUT's actual inputs at every step"]

GEN_COMPONENTS = {
    "real": ["formak.cpp.compile_ekf (generator entry point, templates, ast_fragments)", "generated header/source (real output)", "cpp/runtime/include/formak/runtime/ManagedFilter.h", "cpp/include/formak/innovation_filtering.h", "formak.python.compile_ekf + formak.runtime.ManagedFilter (python leg)"],
    "stub": ["<Eigen/Dense>: ~60-line fixed-size Matrix stand-in (no Eigen in the sandbox): Zero, Identity, (i,j), coefficient ctor, transpose, inverse (Gauss-Jordan, partial pivoting), * + -"],
}
GEN_ASSUMPTIONS = ["'compiles' means: compiles with g++ 12 -std=c++20 -O0 -ffp-contract=off against the Eigen stand-in", "numerical agreement to 1e-9 relative (covariance 1e-8); decisions compared outside the 1e-9 NIS band", "symbol names identifier-safe (no C++ keywords, no names the generator itself emits in the same scope)"]

PLANS = {
    "C10": {
        "level": "exploration",
        "legs": [{"world": "rt_trace", "quick": {"runs": 4000, "budget_s": 70}, "thorough": {"runs": 150000, "budget_s": 900}, "run_timeout": 60}],
        "rule": "each run = seeded swarm config (max_dt from a 9-value menu, control/calibration presence, 0-4 sensors) + a schedule of ticks produced either by a discrete-event world (sensors with skewed clocks -> channels with delay/drop/duplicate/burst/stale/future/outage -> consumer with stall/clock-jump/zero-tick/dup-tick/missing-control) or by an adversarial generator that places stamps at exact multiples of the step, +-ulps, +-sub-nanoseconds, decimal/dyadic grids; executed on the real Python and C++ ManagedFilter; non-trivial = >=1 fault fired, >=3 ticks and >=2 distinct abstract tick signatures; distinct = distinct schedule digest",
        "abstract_measure": "distinct per-tick tuples (leg, per-propagation direction F/B/Z x step-count class 0/1/n, #readings<=4, sensor-id order)",
        "expect_probes": ["probe:backward", "probe:delta_zero", "probe:exact_multiple", "probe:delta_lt_max_dt", "probe:delta_sub_nano", "probe:backward_and_max_dt_lt_0.1", "probe:backward_and_max_dt_gt_0.1", "probe:over_100_steps",
                          "probe:tag_control=0_calibration=0", "probe:tag_control=0_calibration=1", "probe:tag_control=1_calibration=0", "probe:tag_control=1_calibration=1"],
        "components": RT_COMPONENTS,
        "assumptions": ["|t| <= 1e5 s so that 1e-9 s exceeds the spacing of representable times", "sum tolerance 1.1e-9 (1e-9 of the property + 1e-10 for the rounding of current+max_dt*n)", "C++ leg compiled with g++ 12 -O0 -ffp-contract=off against a stand-in Impl"],
    },
    "C11": {
        "level": "exploration",
        "legs": [{"world": "rt_trace", "quick": {"runs": 4000, "budget_s": 60}, "thorough": {"runs": 150000, "budget_s": 700}, "run_timeout": 60},
                 {"world": "rt_ekf", "quick": {"runs": 250, "budget_s": 50}, "thorough": {"runs": 8000, "budget_s": 500}, "run_timeout": 120}],
        "rule": "trace level: same schedules as C10; the recorded call history of every tick must parse as the fold (propagate to each reading's stamp in list order, update, hold; then propagate to the output time without holding) with an unbroken token chain; Python trace == C++ trace. value level: ticks on the real compiled Python EKF must equal the by-hand fold over the same EKF object. non-trivial = >=1 fault fired, >=3 ticks, >=2 distinct abstract tick signatures",
        "abstract_measure": "distinct per-tick tuples (leg, direction pattern, #readings, sensor order)",
        "expect_probes": ["probe:backward", "probe:delta_zero", "fault:reorder", "fault:stale", "fault:future", "fault:dup_of", "fault:burst", "fault:stall", "fault:clock_jump", "fault:zero_tick", "fault:dup_tick", "fault:missing_control"],
        "components": RT_COMPONENTS,
        "assumptions": ["bit-equality of Python and C++ traces is a probe statistic, not demanded"],
    },
    "C04": {
        "level": "exploration",
        "legs": [{"world": "ekf", "quick": {"runs": 320, "budget_s": 60}, "thorough": {"runs": 12000, "budget_s": 800}, "run_timeout": 120, "chunk": 4},
                 {"world": "rt_ekf", "quick": {"runs": 100, "budget_s": 30}, "thorough": {"runs": 4000, "budget_s": 300}, "run_timeout": 120, "chunk": 4}],
        "rule": "each run = swarm-drawn (or curated) model with adversarially sorted names, random declaration order/container, CSE on/off, k, max_dt + a seeded history of process_model / sensor_model calls on the real compiled Python EKF (directly, or through the real ManagedFilter so that dt takes the values real propagation produces, both signs); every prediction is compared with the name-keyed reference re-seeded from the SUT's actual inputs; faults: duplicate call (immediate and deferred), input snapshot. non-trivial = >=1 fault, >=3 ops, >=2 abstract signatures",
        "abstract_measure": "distinct (op kind, reading size, reject parity, #states/#controls/#calibration) tuples",
        "expect_probes": ["fault:duplicate_call", "fault:duplicate_call_deferred", "probe:negative_dt", "probe:controls=0", "probe:controls=3", "probe:calibration=yes", "probe:cse_on", "probe:cse_off", "probe:model_singular_jacobian"],
        "components": EKF_COMPONENTS,
        "assumptions": EKF_ASSUMPTIONS,
    },
    "C05": {
        "level": "exploration",
        "legs": [{"world": "ekf", "quick": {"runs": 320, "budget_s": 60}, "thorough": {"runs": 12000, "budget_s": 800}, "run_timeout": 120, "chunk": 4},
                 {"world": "rt_ekf", "quick": {"runs": 100, "budget_s": 30}, "thorough": {"runs": 4000, "budget_s": 300}, "run_timeout": 120, "chunk": 4}],
        "rule": "as C04 but update-heavy: interleaved sensor_model calls over all sensors of the model (1-3 readings each, unequal per-reading noise, calibration in h); every accepted update is compared with x+K(z-h), P-KHP of the reference; recorded innovation and S per key, isolation of other keys' records, posterior symmetric and <= prior, reading == prediction leaves the state unchanged",
        "abstract_measure": "distinct (op kind, reading size, reject parity, #states/#controls/#calibration) tuples",
        "expect_probes": ["probe:multi_reading_update", "probe:reading_equals_prediction", "probe:calibration=yes", "probe:discarded", "probe:model_multi_reading_sensor"],
        "components": EKF_COMPONENTS,
        "assumptions": EKF_ASSUMPTIONS,
    },
    "C09": {
        "level": "exploration",
        "legs": [{"world": "ekf", "quick": {"runs": 200, "budget_s": 60}, "thorough": {"runs": 8000, "budget_s": 800}, "run_timeout": 180, "chunk": 2},
                 {"world": "rt_ekf", "quick": {"runs": 80, "budget_s": 30}, "thorough": {"runs": 3000, "budget_s": 300}, "run_timeout": 180, "chunk": 2}],
        "rule": "long histories (50-300 steps quick, up to 1200 thorough) of predictions (both dt signs, within max_dt) and updates from SPD, rank-deficient PSD and identity covariances, biased to singular-jacobian models (the mass/z/v/a example is always in the mix); after every step: returned covariance symmetric/PSD to 1e-8 relative, and no refusal of a covariance that the reference says is valid to 1e-12 relative",
        "abstract_measure": "distinct (op kind, reading size, reject parity, model shape) tuples",
        "expect_probes": ["probe:model_singular_jacobian", "fault:singular_start", "probe:negative_dt", "probe:identity_start"],
        "components": EKF_COMPONENTS,
        "assumptions": EKF_ASSUMPTIONS,
    },
    "C06": {
        "level": "exploration",
        "legs": [{"world": "ekf", "quick": {"runs": 320, "budget_s": 40}, "thorough": {"runs": 12000, "budget_s": 600}, "run_timeout": 120, "chunk": 4},
                 {"world": "cpp_gen", "quick": {"runs": 64, "budget_s": 45}, "thorough": {"runs": 2000, "budget_s": 600}, "run_timeout": 240, "chunk": 1}],
        "rule": "update-heavy histories with corrupted-reading faults: spikes (10-1000 sigma), mantissa/exponent bit flips, boundary values placed at NIS = thr*(1 +- {1e-7,1e-5,1e-3,0.05}) and exactly representable ties / +-1 ulp on the selector model (S = diag(1,0.5)); k in {None,0.5,1,3,5}, m in 1..3; decision oracle = exact rational z^T S^-1 z vs 60-digit k*sqrt(2m)+m; a discard must leave state and covariance bit-identical while innovation and S are recorded; cpp_gen leg: the generated C++ sensor_model (decision observed as 'estimate unchanged', inputs re-seeded from the Python leg) and removeInnovation<m> (m=1..4, real innovation_filtering.h) and Python remove_innovation on the same (k, z, S^-1) triples incl. exact ties",
        "abstract_measure": "distinct (op kind, reading size, reject parity, model shape) tuples",
        "expect_probes": ["fault:corrupt:spike", "fault:corrupt:bitflip", "fault:corrupt:boundary", "fault:corrupt:boundary_exact_tie", "fault:corrupt:boundary_ulp_above", "fault:corrupt:boundary_ulp_below", "probe:nis_exact_tie", "probe:discarded", "probe:filtering_disabled_update", "probe:multi_reading_update", "probe:nis_within_1e-6_of_threshold"],
        "components": EKF_COMPONENTS,
        "assumptions": EKF_ASSUMPTIONS + ["decisions are only demanded outside |NIS-thr| <= 1e-9*thr, except exactly representable ties (m=2: thr = 2k+2) where 'not discarded' is required"],
    },
    "C07": {
        "level": "exploration",
        "legs": [{"world": "cpp_gen", "quick": {"runs": 112, "budget_s": 75}, "thorough": {"runs": 4000, "budget_s": 1200}, "run_timeout": 240, "chunk": 1}],
        "rule": "each run = swarm-drawn identifier-safe model (all 4 control x calibration combinations, CSE on/off, k in {off,1,3,5}) -> real formak.cpp generator -> g++ against real ManagedFilter.h / innovation_filtering.h; the real Python filter+runtime and the generated C++ filter+runtime are fed the same seeded history (direct predictions/updates re-seeded from the Python leg's estimate, ticks with stale/future/burst readings and clock jumps on managed filters restarted from it); state, covariance, stored innovation and accept/reject must agree to 1e-9 relative; fields are set and read by name on both sides",
        "abstract_measure": "distinct (op kind, control x calibration combination, #sensors, #readings in tick)",
        "expect_probes": ["probe:combo_control=0&calibration=0", "probe:combo_control=0&calibration=1", "probe:combo_control=1&calibration=0", "probe:combo_control=1&calibration=1", "probe:cse_on", "probe:cse_off", "probe:cpp_discarded", "probe:k=None"],
        "components": GEN_COMPONENTS,
        "assumptions": GEN_ASSUMPTIONS,
    },
    "C12": {
        "level": "exploration",
        "legs": [{"world": "cpp_gen", "quick": {"runs": 112, "budget_s": 75}, "thorough": {"runs": 4000, "budget_s": 1200}, "run_timeout": 240, "chunk": 1}],
        "rule": "as C07, with 0..3 sensors: (1) static_assert(ManagedFilter<generated::ExtendedKalmanFilter>::compatible), construction and tick without/with readings must compile for the generated type itself and for a recording subclass; (2) every tick of the schedule (persistent managed filter across consecutive ticks) must equal, bit for bit, the by-hand replay of the logged process_model(dt)/sensor_model<Reading> calls on a copy of the held estimate",
        "abstract_measure": "distinct (op kind, control x calibration combination, #sensors, #readings in tick)",
        "expect_probes": ["probe:combo_control=0&calibration=0", "probe:combo_control=0&calibration=1", "probe:combo_control=1&calibration=0", "probe:combo_control=1&calibration=1", "probe:sensors=0", "probe:sensors=1", "probe:sensors=2", "probe:tick_readings=0", "probe:tick_readings=2"],
        "components": GEN_COMPONENTS,
        "assumptions": GEN_ASSUMPTIONS,
    },
    "C14": {
        "level": "fault_enumeration",
        "legs": [{"world": "entry", "quick": {"runs": 48, "budget_s": 70}, "thorough": {"runs": 1500, "budget_s": 1200}, "run_timeout": 300, "chunk": 1}],
        "rule": "per run: one seeded valid definition (swarm or curated; random containers and declaration order); the fault-free case, EVERY single structural fault of the catalogue at EVERY applicable position, plus sampled pairs (incl. cancelling pairs) are applied; each case is passed to ui.Model and, when a model object results, to python.compile, python.compile_ekf, cpp.compile and cpp.compile_ekf on a simulated file system; verdict must equal the reference validator evaluated on the mutated definition; a refusal must not have opened a file for writing. evaluations = runs; distinct_nontrivial = runs whose case list contains >=1 fault (every run) counted by distinct schedule digest; distinct abstract states = (entry point, fault kind, outcome)",
        "abstract_measure": "distinct (entry point, fault kind or 'pair', outcome) triples",
        "expect_probes": ["fault:overlap_state_control", "fault:overlap_state_calibration", "fault:overlap_control_calibration", "fault:update_missing", "fault:update_extra", "fault:update_key_swapped", "fault:cal_missing", "fault:cal_extra", "fault:cal_renamed", "fault:pnoise_missing", "fault:pnoise_negative", "fault:pnoise_foreign_add", "fault:pnoise_foreign_replace", "fault:sensor_uses_control", "fault:sensor_uses_undeclared", "fault:snoise_sensor_missing", "fault:snoise_sensor_extra", "fault:snoise_reading_missing", "fault:snoise_reading_extra", "fault:snoise_reading_renamed", "probe:cancelling_pair_valid"],
        "components": {"real": ["formak.ui.Model", "formak.common.model_validation", "formak.python.compile / compile_ekf", "formak.cpp.compile / compile_ekf (incl. argparse of sys.argv, templates)"], "stub": ["file system: formak.cpp.open shadowed by an in-memory recorder"]},
        "assumptions": ["'refused' = any Exception subclass; SystemExit or a normal return on an invalid definition is a violation", "single faults are enumerated completely per drawn definition; pairs and definitions are sampled"],
        "extra_coverage": {"exhaustive": False},
    },
    "C15": {
        "level": "exploration",
        "legs": [{"world": "hashseed", "quick": {"runs": 32, "budget_s": 70}, "thorough": {"runs": 600, "budget_s": 1500}, "run_timeout": 900, "chunk": 1}],
        "rule": "per run: 2 (thorough 6) seeded definitions x 4 (8) fresh interpreters with PYTHONHASHSEED in {0, an extreme, PRNG-drawn} x 3 (5) variants (declaration order of symbols/sensors/readings/noise entries shuffled, container kind in set/list/tuple/frozenset); each generation runs the real cpp.compile_ekf on a simulated FS and python.compile/compile_ekf, twice per interpreter for the first variant; sha256 of header, source and the Python layouts must be identical across all environments of one definition. non-trivial = every run (each has >=4 hash seeds and >=3 declaration variants); distinct by schedule digest",
        "abstract_measure": "distinct (model index, variant index, state container kind)",
        "expect_probes": ["fault:hashseed", "fault:decl_perm", "fault:container"],
        "components": {"real": ["formak.cpp.compile_ekf / header_from_ast / source_from_ast", "formak.python.compile / compile_ekf (layouts)", "fresh CPython interpreters (real PYTHONHASHSEED)"], "stub": ["file system: formak.cpp.open shadowed by an in-memory recorder"]},
        "assumptions": ["the definition is transported as sympy srepr strings, so it is identical in every interpreter"],
    },
    "C16": {
        "level": "exploration",
        "legs": [{"world": "estimator", "quick": {"runs": 400, "budget_s": 70}, "thorough": {"runs": 12000, "budget_s": 1200}, "run_timeout": 300, "chunk": 4}],
        "rule": "per run: seeded model (0-3 controls, 1-3 sensors of 1-3 readings, k in {None,1,5}) + a seeded history of operations on one SklearnEKFAdapter and its clones: transform / mahalanobis / score(explain) on seeded matrices, get_params snapshots, export_python, clone, set_params, fit under the minimize seam, and duplicate calls (same matrix again after other ops intervened); values are compared with the exported filter run by hand (dt=0.1, sensors in key order, NIS from recorded innovation and S) and with the documented score formula; read-only ops must leave a deep by-value snapshot of get_params() unchanged. non-trivial = >=1 fault (duplicate call / minimize fault / unknown param), >=3 ops, >=2 abstract signatures",
        "abstract_measure": "distinct (op kind, #rows class, #sensors, #controls) tuples",
        "expect_probes": ["fault:duplicate_call", "probe:multi_reading_sensor", "probe:controls=0", "probe:controls=3", "probe:sensors=3", "probe:k=None", "probe:k=5.0"],
        "components": {"real": ["formak.python.SklearnEKFAdapter (transform, mahalanobis, score, get/set_params, fit, export_python)", "formak.python.compile_ekf / ExtendedKalmanFilter", "sklearn.base.clone", "scipy.optimize.minimize (wrapped by the fault seam)"], "stub": []},
        "assumptions": ["data bounded |X| <= 10, 1-8 rows", "runs are truncated (not failed) when the filter's covariance gate refuses mid-transform: that is C09's subject"],
    },
    "C17": {
        "level": "exploration",
        "legs": [{"world": "estimator", "quick": {"runs": 240, "budget_s": 75}, "thorough": {"runs": 8000, "budget_s": 1500}, "run_timeout": 600, "chunk": 2}],
        "rule": "as C16 with more fit operations: set_params(**get_params()), clone, set_params(<Config field>=v), unknown names, and fit(X) under the fault seam on formak.python.minimize (real scipy run / forced success=False after j objective evaluations / early stop after j / a probe of a negative noise entry as an unconstrained optimiser does); outcome must be MinimizationFailure or a returned estimator whose model, sensor models, calibration and config equal the pre-fit snapshot and whose noise maps have the original keys, finite values, process noise > 0",
        "abstract_measure": "distinct (op kind, minimize mode, outcome) tuples",
        "expect_probes": ["fault:minimize:fail_after", "fault:minimize:early_stop", "fault:minimize:negative_probe", "fault:unknown_param", "probe:fit_returned", "probe:fit_MinimizationFailure"],
        "components": {"real": ["formak.python.SklearnEKFAdapter", "scipy.optimize.minimize (real runs and as the wrapped callee of the seam)", "sklearn.base.clone"], "stub": ["fault seam formak.python.minimize (module-level name shadowed from outside)"]},
        "assumptions": ["training data bounded |X| <= 10, 3-8 rows", "nothing is demanded of the estimator's parameters after a failed fit (the property is silent)"],
    },
}
