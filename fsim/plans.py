"""Per-property plans: which worlds run, how many runs per tier, evidence texts."""

RT_COMPONENTS = {
    "real": ["formak.runtime.ManagedFilter / StampedReading (py/formak/runtime.py)", "formak::runtime::ManagedFilter (cpp/runtime/include/formak/runtime/ManagedFilter.h, g++ 12 -std=c++20 -O0)"],
    "stub": ["wrapped filter: token-recording stand-in exposing config.max_dt_sec, control_size, process_model, sensor_model, make_reading (Python) / Impl with Tag (C++)"],
}

PLANS = {
    "C10": {
        "level": "exploration",
        "legs": [{"world": "rt_trace", "quick": {"runs": 4000, "budget_s": 70}, "thorough": {"runs": 150000, "budget_s": 900}, "run_timeout": 60}],
        "rule": "each run = seeded swarm config (max_dt from a 9-value menu, control/calibration presence, 0-4 sensors) + a schedule of ticks produced either by a discrete-event world (sensors with skewed clocks -> channels with delay/drop/duplicate/burst/stale/future/outage -> consumer with stall/clock-jump/zero-tick/dup-tick/missing-control) or by an adversarial generator that places stamps at exact multiples of the step, +-ulps, +-sub-nanoseconds, decimal/dyadic grids; executed on the real Python and C++ ManagedFilter; non-trivial = >=1 fault fired, >=3 ticks and >=2 distinct abstract tick signatures; distinct = distinct schedule digest",
        "abstract_measure": "distinct per-tick tuples (leg, per-propagation direction F/B/Z x step-count class 0/1/n, #readings<=4, sensor-id order)",
        "expect_probes": ["probe:backward", "probe:delta_zero", "probe:exact_multiple", "probe:delta_lt_max_dt", "probe:delta_sub_nano", "probe:backward_and_max_dt_lt_0.1", "probe:backward_and_max_dt_gt_0.1", "probe:over_100_steps",
                          "probe:tag_control=0_calibration=0", "probe:tag_control=0_calibration=1", "probe:tag_control=1_calibration=0", "probe:tag_control=1_calibration=1"],
        "components": RT_COMPONENTS,
        "assumptions": ["|t| <= 1e5 s so that 1e-9 s exceeds the spacing of representable times", "sum tolerance 1.1e-9 (1e-9 of the property + 1e-10 for the rounding of current+max_dt*n)", "C++ leg compiled with g++ 12 -O0 -ffp-contract=off against a stand-in Impl"],
    },
    "C11": {
        "level": "exploration",
        "legs": [{"world": "rt_trace", "quick": {"runs": 4000, "budget_s": 60}, "thorough": {"runs": 150000, "budget_s": 700}, "run_timeout": 60},
                 {"world": "rt_ekf", "quick": {"runs": 250, "budget_s": 50}, "thorough": {"runs": 8000, "budget_s": 500}, "run_timeout": 120}],
        "rule": "trace level: same schedules as C10; the recorded call history of every tick must parse as the fold (propagate to each reading's stamp in list order, update, hold; then propagate to the output time without holding) with an unbroken token chain; Python trace == C++ trace. value level: ticks on the real compiled Python EKF must equal the by-hand fold over the same EKF object. non-trivial = >=1 fault fired, >=3 ticks, >=2 distinct abstract tick signatures",
        "abstract_measure": "distinct per-tick tuples (leg, direction pattern, #readings, sensor order)",
        "expect_probes": ["probe:backward", "probe:delta_zero", "fault:reorder", "fault:stale", "fault:future", "fault:dup_of", "fault:burst", "fault:stall", "fault:clock_jump", "fault:zero_tick", "fault:dup_tick", "fault:missing_control"],
        "components": RT_COMPONENTS,
        "assumptions": ["bit-equality of Python and C++ traces is a probe statistic, not demanded"],
    },
}
