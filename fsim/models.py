"""Model definitions for the simulated worlds: swarm-drawn and curated, JSON-serialisable (expressions as sympy srepr).

A definition is data only; build() turns it into real formak.ui.Model + noise/sensor dicts using the declared
containers and declaration orders, so that the *definition* is identical whatever the process hash seed is.
"""
from __future__ import annotations

import json

import sympy
from sympy import Float, Symbol, cos, sin, sqrt, srepr

from fsim.core import fx, xf

# identifier-safe, adversarial sort order (upper/lower case, digits, underscores, shared prefixes); none is a C++
# keyword or a member name the generator itself emits in the same scope
NAMES = ["B", "a", "_a", "a1", "a10", "a2", "Aa", "ab", "abc", "x", "X", "x_1", "z9", "Zz", "q", "Q_", "kk", "k_k", "m0", "M0", "v", "w", "theta", "p_x", "b"]
SENSOR_KEYS = ["alt", "gps", "imu", "sx", "s_2", "range", "baro", "b"]
READING_SUFFIX = ["a", "B", "u", "z", "A"]
CONSTS = [0.5, 2.0, -1.5, 0.25, 3.0, -0.75, 1.0]


def _atom(rng, syms):
    if syms and rng.random() < 0.75:
        return rng.choice(syms)
    return Float(rng.choice(CONSTS))


def _term(rng, syms, depth):
    r = rng.random()
    if depth <= 0 or r < 0.3:
        return _atom(rng, syms)
    if r < 0.5:
        return _term(rng, syms, depth - 1) * _term(rng, syms, depth - 1)
    if r < 0.62:
        return sin(_term(rng, syms, depth - 1))
    if r < 0.74:
        return cos(_term(rng, syms, depth - 1))
    if r < 0.84:
        return _term(rng, syms, depth - 1) ** rng.choice([2, 3])
    if r < 0.90:
        return _term(rng, syms, depth - 1) / (1 + _atom(rng, syms) ** 2)
    if r < 0.915 and syms:
        # an expression sympy.simplify rewrites (to 1): harmless numerically, visible if someone simplifies in place
        a = rng.choice(syms)
        return sin(a) ** 2 + cos(a) ** 2
    if r < 0.93 and syms:
        # quadratic-drag shape: v*|v| written as v*sqrt(v**2) (sign-sensitive; an "assume positive" rewrite breaks it)
        v = rng.choice(syms)
        return v * sqrt(v ** 2)
    return _term(rng, syms, depth - 1) + _term(rng, syms, depth - 1)


def _noise(rng):
    return 10 ** rng.uniform(-2, 1)


def draw(rng, *, max_states=4, max_controls=3, max_cal=2, max_sensors=3, max_readings=3, min_sensors=0, linear=False, identifier_safe=True, symbol_keys=True):
    ns = rng.randint(1, max_states)
    nu = rng.randint(0, max_controls)
    nc = rng.randint(0, max_cal)
    names = rng.sample(NAMES, ns + nu + nc)
    if rng.random() < 0.2:
        # two symbols of the SAME group that differ only by case (a non-injective, e.g. case-folding, sort key ties them)
        pair = rng.choice([("x", "X"), ("m0", "M0"), ("B", "b"), ("a", "A"), ("kk", "Kk")])
        grp = rng.choice([g for g in ((0, ns), (ns, ns + nu), (ns + nu, ns + nu + nc)) if g[1] - g[0] >= 2] or [None])
        if grp is not None:
            rest = [n for n in names if n not in pair and n.lower() not in (pair[0].lower(),)]
            pool = [n for n in NAMES if n not in pair and n not in rest]
            while len(rest) < len(names) - 2:
                rest.append(pool.pop())
            names = rest[: grp[0]] + list(pair) + rest[grp[0]:]
            names = names[: ns + nu + nc]
    S = [Symbol(n) for n in names[:ns]]
    U = [Symbol(n) for n in names[ns : ns + nu]]
    C = [Symbol(n) for n in names[ns + nu :]]
    dt = Symbol("dt")
    allsyms = S + U + C
    tags = ["linear"] if linear else []
    depth = 1 if linear else 2
    shared = _term(rng, allsyms, depth)
    f = {}
    singular = rng.random() < 0.3
    for i, s in enumerate(S):
        if linear:
            e = s + dt * sum((Float(rng.choice(CONSTS)) * t for t in rng.sample(allsyms, min(len(allsyms), rng.randint(1, 3)))), Float(0))
        else:
            e = s + dt * (_term(rng, allsyms, 2) + (shared if rng.random() < 0.6 else 0))
        if singular and i == len(S) - 1:
            # exactly correlated / forgotten state: the process jacobian has a zero column for s
            others = [t for t in allsyms if t != s] or [Float(1.0)]
            e = Float(rng.choice(CONSTS)) * rng.choice(others) + (rng.choice(U) if U else Float(0.5))
            tags.append("singular_jacobian")
        f[s] = e
    nsens = rng.randint(min_sensors, max_sensors)
    sensors = {}
    used = set()
    all_reading_names = []
    for _ in range(nsens):
        key = rng.choice(SENSOR_KEYS) + str(rng.randint(0, 9))
        # keep distinct after .title()/.upper() (C++ type and enum names)
        if key.upper() in used:
            continue
        used.add(key.upper())
        m = rng.randint(1, max_readings)
        rd = {}
        # reading names whose sorted order differs from their declaration (insertion) order
        stems = rng.sample(["r", "R", "bearing", "range", "az", "_z", "el", "Q"], m)
        for j in range(m):
            rn = "%s%d_%s" % (stems[j], rng.randint(0, 9), rng.choice(READING_SUFFIX))
            r_ = rng.random()
            if r_ < 0.12:
                rn = rng.choice(["vx", "px", "qz", "hy"])  # two-character names (a string is also an iterable of characters)
            elif r_ < 0.35 and all_reading_names:
                rn = rng.choice(all_reading_names)  # the same reading name in another sensor, with its own noise
            if rn in rd:
                continue
            all_reading_names.append(rn)
            if rng.random() < 0.12:
                # one state through a constant scale factor (unit conversion): H has a single entry that is not 1
                rd[rn] = Float(rng.choice([0.5, 0.1, 2.0, -0.25])) * rng.choice(S)
            elif linear:
                rd[rn] = sum((Float(rng.choice(CONSTS)) * t for t in rng.sample(S + C, min(len(S + C), rng.randint(1, 2)))), Float(0)) + rng.choice(S)
            else:
                rd[rn] = _term(rng, S + C, 2) + rng.choice(S)
        if not rd:
            rd["r%d_a" % rng.randint(0, 9)] = rng.choice(S) + Float(0.5)
        m = len(rd)
        key_kind = rng.choice(["Symbol", "Symbol", "Symbol_noise_only", "Symbol_model_only"]) if (symbol_keys and m == 1 and rng.random() < 0.2) else "str"
        sensors[key] = {"readings": {k: srepr(v) for k, v in rd.items()}, "noise": {k: fx(_noise(rng)) for k in _shuffled(rng, list(rd))}, "key_kind": key_kind}
        if list(rd) != sorted(rd):
            tags.append("readings_declared_unsorted")
        if m > 1:
            tags.append("multi_reading_sensor")
    containers = {k: rng.choice(["set", "list", "tuple", "frozenset"]) for k in ("state", "control", "calibration")}
    d = {
        "dt": "dt",
        "state": _shuffled(rng, [s.name for s in S]),
        "control": _shuffled(rng, [s.name for s in U]),
        "calibration": _shuffled(rng, [s.name for s in C]),
        "containers": containers,
        "state_model": {s.name: srepr(f[s]) for s in _shuffled(rng, S)},
        "process_noise": {u.name: fx(_noise(rng)) for u in _shuffled(rng, U)},
        "sensors": {k: sensors[k] for k in _shuffled(rng, list(sensors))},
        "calibration_map": {c.name: fx(rng.uniform(-1, 1)) for c in _shuffled(rng, C)},
        "tags": sorted(set(tags)),
        "name": "swarm",
    }
    return d


def _shuffled(rng, xs):
    xs = list(xs)
    rng.shuffle(xs)
    return xs


def _mk(name, state, control, calibration, state_model, process_noise, sensors, calibration_map, tags=()):
    return {
        "dt": "dt", "state": state, "control": control, "calibration": calibration,
        "containers": {"state": "set", "control": "set", "calibration": "set"},
        "state_model": {k: srepr(v) for k, v in state_model.items()},
        "process_noise": {k: fx(v) for k, v in process_noise.items()},
        "sensors": {k: {"readings": {r: srepr(e) for r, e in rd.items()}, "noise": {r: fx(n) for r, n in ns.items()}, "key_kind": "str"} for k, (rd, ns) in sensors.items()},
        "calibration_map": {k: fx(v) for k, v in calibration_map.items()},
        "tags": sorted(tags), "name": name,
    }


def curated(name):
    dt = Symbol("dt")
    if name == "mass_zva":  # the project's own example (ui_test.py): singular process jacobian
        mass, z, v, a, thrust = (Symbol(n) for n in ["mass", "z", "v", "a", "thrust"])
        return _mk(name, ["mass", "z", "v", "a"], ["thrust"], [],
                   {"mass": mass, "z": z + dt * v, "v": v + dt * a, "a": -9.81 * mass + thrust},
                   {"thrust": 1.0}, {"simple": ({"v": v}, {"v": 1.0}), "accel": ({"a": a}, {"a": 0.5})}, {}, tags=["singular_jacobian", "curated"])
    if name == "managed":  # ManagedFilter_test.py
        st, cv, cal = Symbol("state"), Symbol("control_velocity"), Symbol("calibration_velocity")
        return _mk(name, ["state"], ["control_velocity"], ["calibration_velocity"], {"state": st + dt * (cv + cal)}, {"control_velocity": 1.0},
                   {"simple": ({"reading1": st}, {"reading1": 1.0})}, {"calibration_velocity": 0.0}, tags=["curated"])
    if name == "direct2":  # H = selector: exact NIS ties are constructible
        p, q = Symbol("p"), Symbol("q")
        return _mk(name, ["p", "q"], [], [], {"p": p, "q": q}, {}, {"pq": ({"r0": p, "r1": q}, {"r0": 0.5, "r1": 0.25}), "ponly": ({"r0": p}, {"r0": 0.5})}, {}, tags=["curated", "selector", "multi_reading_sensor"])
    if name == "cv":  # constant velocity with acceleration control
        x, v, a = Symbol("x"), Symbol("v"), Symbol("a")
        return _mk(name, ["x", "v"], ["a"], [], {"x": x + dt * v, "v": v + dt * a}, {"a": 0.3}, {"pos": ({"r": x}, {"r": 0.2}), "both": ({"r1": x + v, "r0": x}, {"r0": 0.4, "r1": 0.7})}, {}, tags=["curated", "multi_reading_sensor"])
    if name == "rect":  # rectangular: 2 readings of 3 states + calibration (stride bug family)
        x, v, w, c = Symbol("x"), Symbol("v"), Symbol("w"), Symbol("c")
        return _mk(name, ["x", "v", "w"], [], ["c"], {"x": x + dt * v, "v": v, "w": w + dt * c}, {}, {"s": ({"r1": 3 * w + 5 * v, "r0": 2 * x + v + c}, {"r0": 0.5, "r1": 0.7})}, {"c": 0.25}, tags=["curated", "multi_reading_sensor"])
    if name == "landmark":  # range / bearing / range-rate to a calibrated landmark: nested shared sub-expressions (many CSE temporaries)
        from sympy import atan2, sqrt

        x, y, vx, vy, lx, ly, ax = (Symbol(n) for n in ["x", "y", "vx", "vy", "lx", "ly", "ax"])
        dx, dy = lx - x, ly - y
        rng_ = sqrt(dx ** 2 + dy ** 2)
        return _mk(name, ["x", "y", "vx", "vy"], ["ax"], ["lx", "ly"],
                   {"x": x + dt * vx, "y": y + dt * vy, "vx": vx + dt * ax, "vy": vy - 0.1 * dt * vy},
                   {"ax": 0.4},
                   {"radar": ({"range": rng_, "bearing": atan2(dy, dx), "rate": -(dx * vx + dy * vy) / rng_}, {"range": 0.3, "bearing": 0.05, "rate": 0.2}),
                    "gps": ({"px": x, "py": y}, {"px": 0.5, "py": 0.6})},
                   {"lx": 7.0, "ly": -6.0}, tags=["curated", "multi_reading_sensor", "nested_cse"])
    if name == "brake":  # linear in the state, bilinear in control x state: the process jacobian depends on the CONTROL only
        pos, vel, brake, push = (Symbol(n) for n in ["pos", "vel", "brake", "push"])
        return _mk(name, ["pos", "vel"], ["brake", "push"], [],
                   {"pos": pos + dt * vel, "vel": vel * (1 - dt * brake) + dt * push},
                   {"brake": 0.05, "push": 0.3},
                   {"odo": ({"speed": 0.5 * vel}, {"speed": 0.2}), "gate": ({"where": pos + 0.5 * vel}, {"where": 0.4})},
                   {}, tags=["curated", "control_dependent_jacobian"])
    raise KeyError(name)


CURATED = ["mass_zva", "managed", "direct2", "cv", "rect", "landmark", "brake"]


# --------------------------------------------------------------------------- building real objects
def add_simplifiable(d, rng):
    """rewrite one reading e as e*(sin(a)**2 + cos(a)**2): the same function (a 'linear' model stays linear in value and
    jacobian), but an expression sympy.simplify rewrites -- visible if something simplifies a caller's dict in place"""
    keys = [k for k in d["sensors"] if d["sensors"][k]["readings"]]
    syms = d["state"] + d["calibration"]
    if not keys or not syms:
        return d
    k = rng.choice(keys)
    r = rng.choice(sorted(d["sensors"][k]["readings"]))
    a = Symbol(rng.choice(sorted(syms)))
    e = parse(d["sensors"][k]["readings"][r])
    d["sensors"][k]["readings"][r] = srepr(sympy.Mul(e, sin(a) ** 2 + cos(a) ** 2, evaluate=False) if rng.random() < 0.5 else e * (sin(a) ** 2 + cos(a) ** 2))
    d["tags"] = sorted(set(d["tags"]) | {"simplifiable_reading"})
    return d


def parse(s):
    return sympy.sympify(s) if not isinstance(s, str) else eval(s, {"__builtins__": {}}, _NS)  # noqa: S307 (srepr of our own expressions)


_NS = dict(vars(sympy))


def container(kind, items):
    return {"set": set, "list": list, "tuple": tuple, "frozenset": frozenset}[kind](items)


def build(d):
    """-> dict(model=ui.Model, process_noise, sensor_models, sensor_noises, calibration_map, dt) using the real library."""
    from formak import ui

    dt = Symbol(d["dt"])
    state = container(d["containers"]["state"], [Symbol(n) for n in d["state"]])
    control = container(d["containers"]["control"], [Symbol(n) for n in d["control"]])
    calibration = container(d["containers"]["calibration"], [Symbol(n) for n in d["calibration"]])
    state_model = {Symbol(k): parse(v) for k, v in d["state_model"].items()}
    model = ui.Model(dt=dt, state=state, control=control, state_model=state_model, calibration=calibration)
    return {"model": model, **build_noise(d)}


def build_noise(d):
    process_noise = {Symbol(k): xf(v) for k, v in d["process_noise"].items()}
    sensor_models, sensor_noises = {}, {}
    for key, sd in d["sensors"].items():
        kk = sd.get("key_kind", "str")
        sensor_models[key] = {(Symbol(r) if kk in ("Symbol", "Symbol_model_only") else r): parse(e) for r, e in sd["readings"].items()}
        sensor_noises[key] = {(Symbol(r) if kk in ("Symbol", "Symbol_noise_only") else r): xf(n) for r, n in sd["noise"].items()}
    calibration_map = {Symbol(k): xf(v) for k, v in d["calibration_map"].items()}
    return {"process_noise": process_noise, "sensor_models": sensor_models, "sensor_noises": sensor_noises, "calibration_map": calibration_map}


def digest(d):
    import hashlib

    return hashlib.sha256(json.dumps(d).encode()).hexdigest()[:12]
