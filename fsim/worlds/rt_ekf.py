"""W2 runtime mode: the real ManagedFilter over the real compiled Python EKF (value level of C11; C04/C05/C09 with
the dt values real propagation produces)."""
from fsim.worlds import ekf


def generate(rng, prop, tier):
    return ekf.generate(rng, prop, tier, mode="runtime")


execute = ekf.execute
simplify = ekf.simplify
