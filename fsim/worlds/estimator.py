"""W6 estimator: operation histories on the scikit-learn adapter (C16, C17), with a fault seam on scipy's minimize.

C16: transform / mahalanobis / score are the exported filter's NIS run by hand; read-only calls leave the parameters
unchanged; repeating a call returns identical values.  C17: parameters round-trip; fit ends in MinimizationFailure or
in 'only noise changed'.
"""
from __future__ import annotations

import contextlib
import io
import json
import math

import numpy as np
from sympy import srepr

from fsim import models
from fsim.core import Result, fx, xf
from fsim.reference import rel

CONFIG_FIELDS = {"common_subexpression_elimination": [True, False], "extra_validation": [False], "max_dt_sec": [0.05, 0.1, 0.5, 1.0], "innovation_filtering": [None, 1.0, 3.0, 5.0, 7.5, 1, 4, 0.0]}


# --------------------------------------------------------------------------- generation
def _matrix(rng, rows, cols, scale):
    return [[fx(rng.uniform(-scale, scale)) for _ in range(cols)] for _ in range(rows)]


def generate(rng, prop, tier):
    if rng.random() < 0.3:
        d = models.curated(rng.choice(["cv", "rect", "mass_zva", "direct2"]))
    else:
        d = models.draw(rng, max_states=3, max_controls=3, max_cal=1, max_sensors=3, min_sensors=1, symbol_keys=True, linear=rng.random() < 0.6)
    while not d["sensors"]:
        d = models.draw(rng, max_states=3, max_controls=3, max_cal=1, max_sensors=3, min_sensors=1, symbol_keys=False, linear=True)
    if rng.random() < 0.2:
        d = models.add_simplifiable(d, rng)
    width = len(d["control"]) + sum(len(sd["readings"]) for sd in d["sensors"].values())
    cfg = {"cse": rng.random() < 0.3, "innovation_filtering": rng.choice([None, None, 1.0, 5.0]), "max_dt_sec": fx(rng.choice([0.1, 0.05, 0.5]))}
    mats = {f"m{i}": _matrix(rng, rng.randint(1, 8) if i else rng.randint(3, 8), width, rng.choice([0.5, 1.0, 3.0])) for i in range(rng.randint(2, 4))}
    names = sorted(mats)
    for nm in names:
        if rng.random() < 0.35 and len(mats[nm]) >= 2:
            row = rng.randrange(len(mats[nm]) - 1)  # an outlier row followed by at least one more row
            mats[nm][row] = [fx(xf(v) * rng.choice([8.0, 15.0, 40.0])) for v in mats[nm][row]]
    # unusual-but-legal containers for the data matrix: integer ndarray, plain list of rows
    mkind = {}
    for nm in names:
        r_ = rng.random()
        if r_ < 0.15:
            mats[nm] = [[fx(float(rng.randint(-3, 3))) for _ in row] for row in mats[nm]]
            mkind[nm] = rng.choice(["int64", "list_int"])
        elif r_ < 0.25:
            mkind[nm] = "list"
    ops = []
    n_est = 1
    n_fits = 0
    dropped = False
    saved, saved_ever, saved_fields = set(), False, {}
    n_ops = rng.randint(6, 14 if tier == "quick" else 30)
    p_fit = 0.12 if prop == "C17" else 0.03
    if "linear" not in d.get("tags", []) and d["name"] == "swarm":
        # domain: fits only on linear(ised-exactly) models; a nonlinear model (x**9 readings, cubic dynamics) can overflow on
        # bounded data, and 'the filter diverged numerically' is not what the fit dichotomy is about
        p_fit = 0.0
    for _ in range(n_ops):
        r = rng.random()
        tgt = rng.randrange(n_est)
        if r < p_fit and n_fits < (2 if tier == "quick" else 5):
            n_fits += 1
            mode = rng.choice(["real", "fail_after:%d" % rng.randint(0, 6), "early_stop:%d" % rng.randint(1, 6), "negative_probe", "negative_result"] + (["real"] if tier != "quick" else []))
            rows = rng.randint(3, 8)
            mats[f"f{len(mats)}"] = _matrix(rng, rows, width, rng.choice([0.5, 1.0, 3.0, 10.0]))
            ops.append({"op": "fit", "est": tgt, "X": f"f{len(mats) - 1}", "minimize": mode, "faults": [] if mode == "real" else ["minimize:" + mode.split(":")[0]]})
        elif r < 0.3:
            ops.append({"op": "transform", "est": tgt, "X": rng.choice(names), "faults": []})
        elif r < 0.42:
            ops.append({"op": "mahalanobis", "est": tgt, "X": rng.choice(names), "faults": []})
        elif r < 0.57:
            ops.append({"op": "score", "est": tgt, "X": rng.choice(names), "explain": rng.random() < 0.7, "faults": []})
        elif r < 0.63:
            ops.append({"op": "export_python", "est": tgt, "faults": []})
        elif r < 0.7:
            ops.append({"op": "clone", "est": tgt, "faults": []})
            n_est += 1
        elif r < 0.73:
            ops.append({"op": "set_params_roundtrip", "est": tgt, "faults": []})
        elif r < 0.77:
            # get_params() kept by the caller, the estimator varied, then put back from the kept parameters (and varied again)
            if dropped:
                continue
            if tgt in saved:
                ops.append({"op": "restore_params", "est": tgt, "faults": []})
                saved.discard(tgt)
                other = [f for f in sorted(CONFIG_FIELDS) if f not in saved_fields.get(tgt, [])]
                if other:
                    f = rng.choice(other)
                    ops.append({"op": "set_params_config", "est": tgt, "fields": {f: rng.choice(CONFIG_FIELDS[f])}, "faults": ["after_restore"]})
            else:
                ops.append({"op": "save_params", "est": tgt, "faults": []})
                saved.add(tgt)
                saved_ever = True
                fields = rng.sample(sorted(CONFIG_FIELDS), rng.choice([1, 2]))
                saved_fields[tgt] = fields
                ops.append({"op": "set_params_config", "est": tgt, "fields": {f: rng.choice(CONFIG_FIELDS[f]) for f in fields}, "faults": []})
        elif r < 0.87:
            fields = rng.sample(sorted(CONFIG_FIELDS), rng.choice([1, 1, 2, 2, 3]))
            rng.shuffle(fields)
            ops.append({"op": "set_params_config", "est": tgt, "fields": {f: rng.choice(CONFIG_FIELDS[f]) for f in fields}, "faults": []})
        elif r < 0.89 and len(d["sensors"]) >= 2 and prop == "C17" and not dropped and not saved_ever:
            dropped = True
            ops.append({"op": "drop_last_sensor", "est": 0, "faults": []})
            if n_fits < (2 if tier == "quick" else 5) and p_fit > 0:
                n_fits += 1
                mats[f"f{len(mats)}"] = _matrix(rng, rng.randint(3, 6), width, 1.0)
                ops.append({"op": "fit", "est": 0, "X": f"f{len(mats) - 1}", "minimize": rng.choice(["early_stop:2", "early_stop:3", "negative_result"]), "faults": ["minimize:early_stop", "fit_after_structure_change"]})
        elif r < 0.93:
            ops.append({"op": "set_params_unknown", "est": tgt, "name": rng.choice(["bogus", "max_dt", "process_noises", "Config", "symbolic_models", "bogus__max_dt_sec", "x__process_noise", "config__bogus", "a__b__calibration_map"]), "faults": ["unknown_param"]})
        else:
            prev = [i for i, o in enumerate(ops) if o["op"] in ("transform", "mahalanobis", "score")]
            if prev:
                ops.append({"op": "repeat", "of": rng.choice(prev), "faults": ["duplicate_call"]})
    if any(o["op"] == "fit" and o["minimize"] == "real" for o in ops):
        # a real scipy run evaluates the objective 50-300 times and every evaluation recompiles the filter: keep CSE
        # (sympy cse + simplify, ~0.3 s per compile) off in runs that contain one, otherwise a single fit takes minutes
        cfg["cse"] = False
        for o in ops:
            if o["op"] == "set_params_config" and "common_subexpression_elimination" in o["fields"]:
                o["fields"]["common_subexpression_elimination"] = False
    if prop == "C17" and n_fits < 2 and ("linear" in d.get("tags", []) or d["name"] != "swarm") and rng.random() < 0.2:
        # failed fit -> reconfigure -> successful fit on the same instance (state a failed fit may leave behind)
        mats["fa"] = _matrix(rng, 4, width, 1.0)
        fields = rng.sample(sorted(CONFIG_FIELDS), 2)
        ops = [{"op": "fit", "est": 0, "X": "fa", "minimize": "fail_after:%d" % rng.randint(1, 4), "faults": ["minimize:fail_after"]},
               {"op": "set_params_config", "est": 0, "fields": {f: rng.choice(CONFIG_FIELDS[f]) for f in fields if f != "common_subexpression_elimination"} or {"max_dt_sec": 0.05}, "faults": []},
               {"op": "fit", "est": 0, "X": "fa", "minimize": "early_stop:%d" % rng.randint(1, 4), "faults": ["minimize:early_stop", "fit_after_failed_fit"]}] + ops
    return {"config": cfg, "model": d, "matrices": mats, "matrix_kind": mkind, "ops": ops, "faults": []}


# --------------------------------------------------------------------------- helpers
def snapshot(est):
    """deep, by-value picture of get_params()"""
    p = dict(est.get_params())
    none_fields = sorted(k for k in ("symbolic_model", "process_noise", "sensor_models", "sensor_noises", "calibration_map", "config") if p.get(k) is None)
    missing = sorted(k for k in ("symbolic_model", "process_noise", "sensor_models", "sensor_noises", "calibration_map", "config") if k not in p)
    for k in ("process_noise", "sensor_models", "sensor_noises"):
        if p.get(k) is None:
            p[k] = {}
    if p.get("config") is None:
        from formak import python as _py

        p["config"] = _py.Config()
    p.setdefault("symbolic_model", None)
    p.setdefault("calibration_map", None)
    sm = p["symbolic_model"]
    return json.dumps({
        "none_fields": none_fields, "missing_fields": missing,
        "keys": sorted(p),
        "model": None if sm is None else {"state": sorted(str(s) for s in sm.state), "control": sorted(str(s) for s in sm.control), "calibration": sorted(str(s) for s in sm.calibration),
                                          "state_model": {str(k): srepr(v) for k, v in sorted(sm.state_model.items(), key=lambda kv: str(kv[0]))}, "dt": str(sm.dt)},
        "process_noise": sorted((str(k), type(k).__name__, float(v).hex()) for k, v in p["process_noise"].items()),
        "sensor_models": {str(k): {str(r): [type(r).__name__, srepr(e)] for r, e in sorted(v.items(), key=lambda kv: str(kv[0]))} for k, v in sorted(p["sensor_models"].items())},
        "sensor_noises": {str(k): sorted((str(r), type(r).__name__, float(n).hex()) for r, n in v.items()) for k, v in sorted(p["sensor_noises"].items())},
        "calibration_map": sorted((str(k), type(k).__name__, float(v).hex()) for k, v in (p["calibration_map"] or {}).items()),
        "config": config_dict(p["config"]),
        "attrs": {k: (None if getattr(est, k, None) is None else (sorted(str(x) for x in getattr(est, k)) if isinstance(getattr(est, k), dict) else type(getattr(est, k)).__name__)) for k in ("process_noise", "sensor_models", "sensor_noises", "calibration_map", "config")},
    }, sort_keys=True)


class _Kept:
    """parameters a caller kept from get_params(), presented like an estimator to snapshot()"""

    def __init__(self, params):
        self._p = dict(params)
        for k_, v_ in self._p.items():
            setattr(self, k_, v_)

    def get_params(self):
        return dict(self._p)


def config_dict(c):
    return {f: repr(getattr(c, f)) for f in ("common_subexpression_elimination", "extra_validation", "max_dt_sec", "innovation_filtering")} | {"python_modules": str(len(c.python_modules))}


def by_hand_nis(est, d, X):
    """Run the exported filter by hand: predict with dt=0.1, then update the sensors in key order; NIS from the recorded innovation and S."""
    with contextlib.redirect_stdout(io.StringIO()):
        f = est.export_python()
    U = sorted(d["control"])
    keys = sorted(d["sensors"])
    st, cov = f.State(), f.Covariance()
    out = []
    X = np.asarray(X, dtype=float)
    for row in X:
        ctl = f.Control(**{u: float(row[j]) for j, u in enumerate(U)})
        with contextlib.redirect_stdout(io.StringIO()):
            st, cov = f.process_model(0.1, st, cov, ctl)
        off = len(U)
        nis_row = []
        for key in keys:
            rn = sorted(d["sensors"][key]["readings"])
            rd = f.make_reading(key, **{r: float(row[off + j]) for j, r in enumerate(rn)})
            off += len(rn)
            with contextlib.redirect_stdout(io.StringIO()):
                st, cov = f.sensor_model(st, cov, sensor_key=key, sensor_reading=rd)
            inn, S = f.innovations[key], f.sensor_prediction_uncertainty[key]
            nis_row.append(float((inn.T @ np.linalg.inv(S) @ inn).item()))
        out.append(nis_row)
    return np.array(out, dtype=float).reshape(len(X), len(keys))


def expected_noise_from_x(d, x):
    """the documented flattening: process noise per control in name order, then per sensor key (sorted) per reading (sorted); floor 1e-6"""
    x = [float(v) for v in x]
    U = sorted(d["control"])
    pn = {u: max(1e-6, x[i]) for i, u in enumerate(U)}
    off = len(U)
    sn = {}
    for key in sorted(d["sensors"]):
        rn = sorted(d["sensors"][key]["readings"])
        sn[key] = {r: max(1e-6, x[off + j]) for j, r in enumerate(rn)}
        off += len(rn)
    return pn, sn


class MinimizeSeam:
    """Fault seam on formak.python.minimize (the name the module imported from scipy)."""

    def __init__(self, real):
        self.real = real
        self.mode = "real"
        self.evaluations = 0
        self.last_x = None

    def __call__(self, fun, x0, *a, **k):
        from scipy.optimize import OptimizeResult

        x0 = np.asarray(x0, dtype=float)
        mode = self.mode

        def counted(x):
            self.evaluations += 1
            return fun(x)

        self.last_x = None
        if mode == "real":
            r_ = self.real(counted, x0, *a, **k)
            self.last_x = None if not getattr(r_, "success", False) else np.array(r_.x, dtype=float)
            return r_
        kind, _, j = mode.partition(":")
        j = int(j or 0)
        if kind == "fail_after":
            for i in range(j):
                counted(x0 * (1.0 + 0.05 * (i + 1)))
            return OptimizeResult(x=x0, success=False, message="fsim: injected minimisation failure", fun=float("nan"), nit=j)
        if kind == "early_stop":
            x = x0
            for i in range(j):
                x = x0 * (1.0 + 0.1 * (i + 1))
                counted(x)
            self.last_x = np.array(x, dtype=float)
            return OptimizeResult(x=x, success=True, message="fsim: stopped early", fun=0.0, nit=j)
        if kind == "negative_result":
            # an unconstrained optimiser may legitimately END at a point with non-positive components: the fitted estimator must
            # still carry valid (floored) noise
            x = np.array(x0, dtype=float)
            counted(x)
            x[0] = -abs(x[0]) - 0.25
            x[-1] = 0.0
            self.last_x = np.array(x, dtype=float)
            return OptimizeResult(x=x, success=True, message="fsim: solution with non-positive components", fun=0.0, nit=1)
        if kind == "negative_probe":
            # what an unconstrained optimiser legitimately does: evaluate the objective at a point with a negative noise entry
            x = np.array(x0, dtype=float)
            x[-1] = -abs(x[-1]) - 0.5
            counted(x)
            self.last_x = np.array(x0, dtype=float)
            return OptimizeResult(x=x0, success=True, message="fsim: probed a negative noise", fun=0.0, nit=1)
        raise ValueError(mode)


# --------------------------------------------------------------------------- execution
def execute(schedule) -> Result:
    from formak import python
    from formak.exceptions import MinimizationFailure
    from sklearn.base import clone

    res = Result()
    d, cfg = schedule["model"], schedule["config"]
    res.log.append("cfg " + json.dumps(cfg, sort_keys=True) + " model " + models.digest(d))
    b = models.build(d)
    config = python.Config(common_subexpression_elimination=cfg["cse"], innovation_filtering=cfg["innovation_filtering"], max_dt_sec=xf(cfg["max_dt_sec"]))
    est0 = python.SklearnEKFAdapter.Create(b["model"], b["process_noise"], b["sensor_models"], b["sensor_noises"], b["calibration_map"], config=config)
    pool = [est0]
    defs = [json.loads(json.dumps(d))]  # the definition each pooled estimator currently holds (structure can change via set_params)
    pool_snap = {}
    mats = {}
    for k_, m in schedule["matrices"].items():
        kind_ = schedule.get("matrix_kind", {}).get(k_, "float64")
        vals = [[xf(v) for v in row] for row in m]
        if kind_ == "int64":
            mats[k_] = np.array(vals, dtype=np.int64)
        elif kind_ == "list_int":
            mats[k_] = [[int(v) for v in row] for row in vals]
        elif kind_ == "list":
            mats[k_] = vals
        else:
            mats[k_] = np.array(vals, dtype=float)
        if kind_ != "float64":
            res.stats[f"fault:matrix_{kind_}"] += 1
    kept = {}  # estimator index -> (get_params() kept by the caller, snapshot at that time)
    first = {}  # op index -> (kind, est index, X name, explain, value bytes, params snapshot at that time)
    seam = MinimizeSeam(getattr(python, "minimize", None) or __import__("scipy.optimize", fromlist=["minimize"]).minimize)
    had_name = hasattr(python, "minimize")
    if had_name:
        python.minimize = seam  # seam: the name the module imported from scipy; if a refactor no longer has it, fits simply run for real
    res.stats[f"probe:controls={len(d['control'])}"] += 1
    res.stats[f"probe:sensors={len(d['sensors'])}"] += 1
    res.stats[f"probe:k={cfg['innovation_filtering']}"] += 1
    if any(len(sd["readings"]) > 1 for sd in d["sensors"].values()):
        res.stats["probe:multi_reading_sensor"] += 1
    try:
        for i, op in enumerate(schedule["ops"]):
            if res.truncated:
                break
            kind = op["op"]
            if kind == "repeat":
                if op["of"] not in first:
                    continue
                k2, ei, xn, explain, val, snap = first[op["of"]]
                if ei >= len(pool) or snapshot(pool[ei]) != snap:
                    continue  # parameters changed in between (fit / set_params): a different question
                res.stats["fault:duplicate_call"] += 1
                with contextlib.redirect_stdout(io.StringIO()):
                    d_ = defs[ei]
                    again = _read_op(pool[ei], k2, _cut(mats[xn], len(d_["control"]) + sum(len(sd["readings"]) for sd in d_["sensors"].values())), explain)
                if _bytes(again) != val:
                    res.add("C16", "repeatability", f"C16:py:repeatability:{k2}", i, f"repeating {k2} with the same matrix and unchanged parameters returns identical values", "values differ")
                res.ops += 1
                continue
            est = pool[op["est"]] if op["est"] < len(pool) else pool[0]
            ei = op["est"] if op["est"] < len(pool) else 0
            d = defs[ei]
            width_ = len(d["control"]) + sum(len(sd["readings"]) for sd in d["sensors"].values())
            before = snapshot(est)
            for f in op["faults"]:
                res.stats["fault:" + f] += 1
            if kind in ("transform", "mahalanobis", "score"):
                X = _cut(mats[op["X"]], width_)
                # domain guard first: the exported filter run by hand must get through this data without raising and stay
                # bounded (a nonlinear swarm model can overflow on bounded data; that is the filter's business, C04/C05/C09)
                try:
                    with contextlib.redirect_stdout(io.StringIO()), np.errstate(all="ignore"):
                        want = by_hand_nis(est, d, X)
                    if not np.all(np.isfinite(want)) or (want.size and float(np.max(np.abs(want))) > 1e12):
                        raise FloatingPointError("NIS not finite / huge")
                except Exception as e:  # noqa: BLE001
                    res.stats["probe:filter_diverges_on_data"] += 1
                    res.truncated = f"guard:filter_diverges_on_data:{type(e).__name__}"
                    break
                try:
                    with contextlib.redirect_stdout(io.StringIO()):
                        val = _read_op(est, kind, X, op.get("explain", False))
                except AssertionError as e:
                    res.stats["probe:read_op_refused"] += 1  # covariance gate territory (C09), not judged here
                    res.truncated = f"sut_refused:{str(e)[:40]}"
                    break
                except Exception as e:  # noqa: BLE001
                    nis_sum = float(np.sum(want)) if want.size else 0.0
                    if kind == "score" and isinstance(e, ValueError) and not (nis_sum > 0.0 and math.isfinite(1.0 / nis_sum + nis_sum)):
                        # every NIS is exactly 0 (an all-zero row on a model that predicts 0): the documented combination
                        # (1/sum + sum)/2 is not a finite number, and the library says so with a ValueError -- not a wrong value
                        res.stats["probe:score_refused_nonfinite_combination"] += 1
                        continue
                    res.add("C16", "raises", f"C16:py:raises:{kind}:{type(e).__name__}", i, f"{kind} returns", f"{type(e).__name__}: {str(e)[:200]}")
                    break
                _check_values(res, i, kind, est, d, X, val, want, op.get("explain", False))
                first[i] = (kind, ei, op["X"], op.get("explain", False), _bytes(val), before)
                if snapshot(est) != before:
                    res.add("C16", "params_changed", f"C16:py:params_changed:{kind}", i, f"{kind} leaves get_params() unchanged", _diffkeys(before, snapshot(est)))
                res.abstract.append(f"{kind}|rows={min(len(X), 4)}|s={len(d['sensors'])}|u={len(d['control'])}")
            elif kind == "export_python":
                with contextlib.redirect_stdout(io.StringIO()):
                    f_ = est.export_python()
                if snapshot(est) != before:
                    res.add("C16", "params_changed", "C16:py:params_changed:export_python", i, "export_python leaves get_params() unchanged", _diffkeys(before, snapshot(est)))
                if config_dict(f_.config) != config_dict(est.config):
                    res.add("C16", "export_config", "C16:py:export_config", i, f"exported filter carries the estimator's configuration {config_dict(est.config)}", f"{config_dict(f_.config)}")
                res.abstract.append("export")
            elif kind == "clone":
                c = clone(est)
                if snapshot(c) != before:
                    res.add("C17", "clone", "C17:py:clone", i, "clone has equal parameters", _diffkeys(before, snapshot(c)))
                if snapshot(est) != before:
                    res.add("C16", "params_changed", "C16:py:params_changed:clone", i, "clone leaves the original's parameters unchanged", _diffkeys(before, snapshot(est)))
                pool.append(c)
                defs.append(json.loads(json.dumps(d)))
                res.abstract.append("clone")
            elif kind == "save_params":
                kept[ei] = (est.get_params(), before)
                res.abstract.append("save")
            elif kind == "restore_params":
                if ei not in kept:
                    continue
                params_, _snap_then = kept.pop(ei)
                est.set_params(**params_)
                # get_params() hands out the parameter objects themselves (scikit-learn convention): what the caller kept is what
                # those objects hold NOW (a fit in between may have retuned a noise dict in place), and that is what must come back
                snap_ = snapshot(_Kept(params_))
                if snapshot(est) != snap_:
                    res.add("C17", "restore", "C17:py:restore_from_kept_params", i, "set_params(**params kept from an earlier get_params()) restores exactly those parameters", _diffkeys(snap_, snapshot(est)))
                res.stats["probe:restore_from_kept_params"] += 1
                res.abstract.append("restore")
            elif kind == "set_params_roundtrip":
                est.set_params(**est.get_params())
                if snapshot(est) != before:
                    res.add("C17", "roundtrip", "C17:py:roundtrip", i, "set_params(**get_params()) changes nothing", _diffkeys(before, snapshot(est)))
                res.abstract.append("roundtrip")
            elif kind == "set_params_config":
                fields = op["fields"] if "fields" in op else {op["field"]: op["value"]}
                tag = "+".join(sorted(fields)) if len(fields) == 1 else f"{len(fields)}_fields_in_one_call"
                try:
                    est.set_params(**fields)
                except Exception as e:  # noqa: BLE001
                    res.add("C17", "config_field_refused", f"C17:py:config_field_refused:{tag}", i, f"set_params({fields}) accepted", f"{type(e).__name__}: {str(e)[:120]}")
                    continue
                want = json.loads(before)
                for f_, v_ in fields.items():
                    want["config"][f_] = repr(v_)
                after = json.loads(snapshot(est))
                if after != want:
                    res.add("C17", "config_field", f"C17:py:config_field:{tag}", i, f"exactly the configuration field(s) {fields} change", _diffkeys(json.dumps(want, sort_keys=True), json.dumps(after, sort_keys=True)))
                res.stats[f"probe:config_fields_per_call={len(fields)}"] += 1
                res.abstract.append(f"cfg:{tag}")
            elif kind == "set_params_unknown":
                try:
                    est.set_params(**{op["name"]: 1.0})
                    res.add("C17", "unknown_accepted", "C17:py:unknown_accepted", i, f"unknown parameter name {op['name']!r} refused", "accepted")
                except Exception:  # noqa: BLE001
                    pass
                if snapshot(est) != before:
                    res.add("C17", "unknown_changed_params", "C17:py:unknown_changed_params", i, "a refused set_params changes nothing", _diffkeys(before, snapshot(est)))
                res.abstract.append("unknown")
            elif kind == "drop_last_sensor":
                # structural change through set_params: the sensor that is last in key order disappears from models and noises
                if len(d["sensors"]) < 2:
                    continue
                gone = sorted(d["sensors"])[-1]
                p_ = est.get_params()
                est.set_params(sensor_models={k_: v for k_, v in p_["sensor_models"].items() if str(k_) != gone},
                               sensor_noises={k_: v for k_, v in p_["sensor_noises"].items() if str(k_) != gone})
                defs[ei] = json.loads(json.dumps(d))
                del defs[ei]["sensors"][gone]
                res.stats["fault:structure_changed_by_set_params"] += 1
                res.abstract.append("drop_sensor")
            elif kind == "fit":
                X = _cut(mats[op["X"]], width_)
                seam.mode, seam.evaluations = op["minimize"], 0
                outcome = None
                try:
                    with contextlib.redirect_stdout(io.StringIO()):
                        ret = est.fit(X)
                    outcome = "returned"
                except MinimizationFailure:
                    outcome = "MinimizationFailure"
                except Exception as e:  # noqa: BLE001
                    outcome = f"raised:{type(e).__name__}"
                    res.add("C17", "fit_raises", f"C17:py:fit_raises:{type(e).__name__}", i, "fit fails with MinimizationFailure or returns a fitted estimator", f"{type(e).__name__}: {str(e)[:200]} (minimize mode {op['minimize']}, {seam.evaluations} objective evaluations)")
                finally:
                    seam.mode = "real"
                res.stats[f"probe:fit_{outcome.split(':')[0]}"] += 1
                res.stats["objective_evaluations"] += seam.evaluations
                if outcome == "returned":
                    _check_fit(res, i, before, ret, est)
                    if seam.last_x is not None:
                        pn, sn = expected_noise_from_x(d, seam.last_x)
                        gp = {str(k_): float(v) for k_, v in ret.get_params()["process_noise"].items()}
                        gs = {str(k_): {str(r): float(v) for r, v in m_.items()} for k_, m_ in ret.get_params()["sensor_noises"].items()}
                        bad = [(u, gp.get(u), v) for u, v in pn.items() if gp.get(u) is None or abs(gp[u] - v) > 1e-12 * (1 + abs(v))]
                        bad += [(f"{k_}.{r}", gs.get(k_, {}).get(r), v) for k_, m_ in sn.items() for r, v in m_.items() if gs.get(k_, {}).get(r) is None or abs(gs[k_][r] - v) > 1e-12 * (1 + abs(v))]
                        if bad:
                            res.add("C17", "fit_noise_binding", "C17:py:fit_noise_binding", i, "each fitted magnitude is the optimiser's value for THAT control / sensor reading (name order flattening)", f"(name, fitted, optimiser) = {bad[:4]}")
                elif outcome.startswith("raised"):
                    break
                res.abstract.append(f"fit|{op['minimize'].split(':')[0]}|{outcome.split(':')[0]}")
            # no operation on one estimator may change ANOTHER pooled estimator (clones share nothing observable)
            for j_, other in enumerate(pool):
                if other is est or (kind == "clone" and j_ == len(pool) - 1):
                    continue
                sn_ = snapshot(other)
                if j_ in pool_snap and pool_snap[j_] != sn_:
                    res.add("C17", "other_estimator_changed", f"C17:py:other_estimator_changed:{kind}", i, f"{kind} on estimator {ei if kind not in ('clone',) else op['est']} leaves estimator {j_} (a clone / its original) unchanged", _diffkeys(pool_snap[j_], sn_))
                pool_snap[j_] = sn_
            pool_snap[pool.index(est)] = snapshot(est)
            res.ops += 1
            res.log.append(f"{i} {kind} snap={hash_s(snapshot(est))}")
    finally:
        if had_name:
            python.minimize = seam.real
    return res


def hash_s(s):
    import hashlib

    return hashlib.sha256(s.encode()).hexdigest()[:12]


def _cut(X, width):
    """first `width` columns of a data matrix (ndarray or list of rows)"""
    if isinstance(X, np.ndarray):
        return X[:, :width] if X.shape[1] > width else X
    return [row[:width] for row in X]


def _read_op(est, kind, X, explain):
    if kind == "transform":
        return est.transform(X)
    if kind == "mahalanobis":
        return est.mahalanobis(X)
    return est.score(X, explain_score=explain)


def _bytes(v):
    if isinstance(v, tuple):
        return b"|".join(_bytes(x) for x in v)
    return np.asarray(v, dtype=float).tobytes()


def _check_values(res, i, kind, est, d, X, val, want, explain):
    n_sensors = len(d["sensors"])
    if kind == "transform":
        got = np.asarray(val, dtype=float).reshape(len(X), n_sensors)
        if np.any(got < 0):
            res.add("C16", "negative_nis", "C16:py:negative_nis", i, "all NIS values non-negative", f"{got.min()}")
        if rel(got, want) > 1e-9:
            res.add("C16", "transform_value", "C16:py:transform_value", i, f"NIS per row and sensor from the exported filter run by hand: {want.tolist()}", f"{got.tolist()}")
    elif kind == "mahalanobis":
        got = np.asarray(val, dtype=float)
        if got.shape != (want.size,) or rel(got, want.flatten()) > 1e-9:
            res.add("C16", "mahalanobis_value", "C16:py:mahalanobis_value", i, f"the transform values flattened: {want.flatten().tolist()}", f"{got.tolist()}")
    else:
        nis = want.flatten()
        bias = float(np.mean(np.sqrt(nis)) ** 2)
        var = float(np.sum(nis))
        variance = (1.0 / var + var) / 2.0
        noise = [xf(v) for v in d["process_noise"].values()] + [xf(v) for sd in d["sensors"].values() for v in sd["noise"].values()]
        # the estimator's *current* noise (fit may have retuned it)
        p = est.get_params()
        noise = [float(v) for v in p["process_noise"].values()] + [float(v) for m in p["sensor_noises"].values() for v in m.values()]
        matrix = float(np.sum(np.square(noise)))
        total = 10.0 * bias + 1.0 * variance + 0.01 * matrix
        if explain:
            got, parts = val
            exp_parts = (10.0, bias, 1.0, variance, 0.01, matrix)
            if len(parts) != 6 or any(abs(float(a) - b) > 1e-9 * (1 + abs(b)) for a, b in zip(parts, exp_parts)):
                res.add("C16", "score_parts", "C16:py:score_parts", i, f"(bias w, bias, variance w, variance, size w, size) = {exp_parts}", f"{tuple(float(x) for x in parts)}")
        else:
            got = val
        if not math.isfinite(total):
            return
        if abs(float(got) - total) > 1e-9 * (1 + abs(total)):
            res.add("C16", "score_value", "C16:py:score_value", i, f"10*mean(sqrt(nis))^2 + (1/sum+sum)/2 + 0.01*sum(noise^2) = {total!r}", f"{float(got)!r}")


def _check_fit(res, i, before, ret, est):
    if ret is not est:
        res.stats["probe:fit_returned_other_object"] += 1
    b, a = json.loads(before), json.loads(snapshot(ret))
    for part in ("model", "sensor_models", "calibration_map", "config", "keys"):
        if a[part] != b[part]:
            res.add("C17", "fit_changed", f"C17:py:fit_changed:{part}", i, f"fit leaves {part} as it was", f"{str(b[part])[:150]} -> {str(a[part])[:150]}")
    if [e[:2] for e in a["process_noise"]] != [e[:2] for e in b["process_noise"]]:
        res.add("C17", "fit_noise_keys", "C17:py:fit_noise_keys:process", i, f"fitted process noise names exactly {[e[:2] for e in b['process_noise']]}", f"{[e[:2] for e in a['process_noise']]}")
    if {k: [e[:2] for e in v] for k, v in a["sensor_noises"].items()} != {k: [e[:2] for e in v] for k, v in b["sensor_noises"].items()}:
        res.add("C17", "fit_noise_keys", "C17:py:fit_noise_keys:sensor", i, "fitted sensor noise names exactly the sensors and readings of the original", f"{ {k: [e[:2] for e in v] for k, v in a['sensor_noises'].items()} }")
    vals_p = [float.fromhex(e[-1]) for e in a["process_noise"]]
    vals_s = [float.fromhex(e[-1]) for m in a["sensor_noises"].values() for e in m]
    if not all(math.isfinite(v) for v in vals_p + vals_s):
        res.add("C17", "fit_noise_finite", "C17:py:fit_noise_finite", i, "every fitted magnitude finite", f"{vals_p} {vals_s}")
    if not all(v > 0 for v in vals_p):
        res.add("C17", "fit_process_noise_positive", "C17:py:fit_process_noise_positive", i, "fitted process noise strictly positive", f"{vals_p}")


def _diffkeys(a, b):
    a, b = json.loads(a), json.loads(b)
    return "; ".join(f"{k}: {str(a[k])[:120]} -> {str(b[k])[:120]}" for k in a if a[k] != b.get(k))[:500]


def simplify(schedule):
    used = {op.get("X") for op in schedule["ops"]}
    for op_i, op in enumerate(schedule["ops"]):
        if op["op"] == "fit" and op["minimize"] == "real":
            for alt in ("negative_probe", "early_stop:1"):
                s = json.loads(json.dumps(schedule))
                s["ops"][op_i]["minimize"] = alt
                yield s
    for k in list(schedule["matrices"]):
        if k in used and len(schedule["matrices"][k]) > 3:
            s = json.loads(json.dumps(schedule))
            s["matrices"][k] = s["matrices"][k][:3]
            yield s
