"""W7 workflow: transition histories on the design workflow (C18), incl. failing fits.

Reference: the 3-node graph Start -> Symbolic_Model -> Fit_Model.  search == BFS on it; fit_model refuses < 3 rows;
the exported filter carries hyper-parameters from the grid (defaults for keys not in the grid).
"""
from __future__ import annotations

import contextlib
import io
import json

import numpy as np

from fsim import models
from fsim.core import Result, fx, xf
from fsim.worlds.estimator import MinimizeSeam, config_dict

GRAPH = {"Start": {"symbolic_model": "Symbolic_Model"}, "Symbolic_Model": {"fit_model": "Fit_Model"}, "Fit_Model": {}}
STATES = ["Start", "Symbolic_Model", "Fit_Model"]
import enum


class PipelineStage(enum.Enum):  # a foreign enum whose member names collide with the workflow's state ids
    Start = "start"
    Symbolic_Model = "symbolic"
    Fit_Model = "fit"


BAD_TARGETS = ["Fit_Model", 2, None, "StateId.Start", PipelineStage.Fit_Model, PipelineStage.Start, True]
HYPER = {"innovation_filtering": [None, None, 1.0, 3.0, 7.0, 5.0], "max_dt_sec": [0.05, 0.1, 0.5], "common_subexpression_elimination": [False]}
DEFAULTS = {"common_subexpression_elimination": "True", "extra_validation": "False", "max_dt_sec": "0.1", "innovation_filtering": "5.0"}


def bfs(src, dst):
    frontier = [(src, [])]
    seen = set()
    while frontier:
        s, path = frontier.pop(0)
        if s == dst:
            return path
        if s in seen:
            continue
        seen.add(s)
        for name, nxt in GRAPH[s].items():
            frontier.append((nxt, path + [name]))
    return None


def generate(rng, prop, tier):
    if rng.random() < 0.5:
        d = models.curated(rng.choice(["cv", "direct2", "mass_zva"]))
    else:
        d = models.draw(rng, max_states=2, max_controls=2, max_cal=1, max_sensors=2, min_sensors=1, symbol_keys=False, linear=True)
    while not d["sensors"]:
        d = models.draw(rng, max_states=2, max_controls=2, max_cal=1, max_sensors=2, min_sensors=1, symbol_keys=False, linear=True)
    width = len(d["control"]) + sum(len(sd["readings"]) for sd in d["sensors"].values())
    mats = {"small1": [[fx(rng.uniform(-1, 1)) for _ in range(width)] for _ in range(1)], "small2": [[fx(rng.uniform(-1, 1)) for _ in range(width)] for _ in range(2)],
            "empty": [], "ok": [[fx(rng.uniform(-1, 1)) for _ in range(width)] for _ in range(rng.randint(3, 7))]}
    ops = []
    pool = ["Start"]  # reference states of pooled objects
    n_ops = rng.randint(8, 16 if tier == "quick" else 40)
    fits = 0
    max_fits = 2 if tier == "quick" else 4
    for _ in range(n_ops):
        r = rng.random()
        src = rng.randrange(len(pool))
        if r < 0.2:
            starts = [i for i, s in enumerate(pool) if s == "Start"]
            ops.append({"op": "symbolic_model", "from": rng.choice(starts), "faults": []})
            pool.append("Symbolic_Model")
        elif r < 0.45:
            sms = [i for i, s in enumerate(pool) if s == "Symbolic_Model"]
            if not sms:
                continue
            if rng.random() < 0.5 or fits >= max_fits:
                ops.append({"op": "fit_model", "from": rng.choice(sms), "data": rng.choice(["small1", "small2", "empty"]), "grid": {}, "minimize": "real", "faults": ["too_little_data"]})
            else:
                grid = {}
                for k in rng.sample(sorted(HYPER), rng.randint(1, 2)):
                    grid[k] = sorted(set(rng.sample(HYPER[k], min(len(HYPER[k]), rng.choice([1, 1, 2])))), key=repr)
                if rng.random() < 0.3:
                    # thresholds as plain ints, an int-first mixed grid, the boundary value 0
                    grid["innovation_filtering"] = rng.choice([[3, 6.5], [1, 2.5], [4], [0, 2.0], [2, 0]])
                if d["name"] in ("cv", "direct2") and rng.random() < 0.35:
                    grid["extra_validation"] = [True]  # these models pass the (slow, symbolic) extra validation
                if rng.random() < 0.25:
                    grid["innovation_filtering"] = [None]  # filtering pinned off: a single-valued dimension whose value is None
                extra = {}
                if d["calibration"] and rng.random() < 0.4:
                    # a calibration grid: the second entry shifts every calibration value
                    extra["calibration_shift"] = rng.choice([0.5, -1.25, 2.0])
                if d["control"] and rng.random() < 0.3:
                    extra["process_noise_factor"] = rng.choice([0.25, 4.0])
                ops.append({"op": "fit_model", "from": rng.choice(sms), "data": "ok", "grid": grid, "extra_grid": extra, "minimize": rng.choice(["early_stop:2", "early_stop:1", "early_stop:3", "real"]), "faults": []})
                pool.append("Fit_Model")
                fits += 1
                if rng.random() < 0.4:
                    # the caller's grid dict (one object, written once in a script) used for a second fit
                    first = len(ops) - 1
                    ops.append(dict(json.loads(json.dumps(ops[first])), reuse_grid_of=first, minimize=rng.choice(["early_stop:2", "early_stop:1"]), faults=["grid_object_reused"]))
                    ops[-1]["from"] = rng.choice(sms)
                    pool.append("Fit_Model")
                    fits += 1
        elif r < 0.7:
            if rng.random() < 0.25:
                ops.append({"op": "search", "from": src, "target": None, "bad_target": rng.randrange(len(BAD_TARGETS)), "faults": ["bad_target"]})
            else:
                ops.append({"op": "search", "from": src, "target": rng.choice(STATES), "faults": []})
        elif r < 0.8:
            ops.append({"op": "search_table", "faults": []})
        elif r < 0.9:
            ops.append({"op": "inspect", "from": src, "faults": []})
        else:
            fs = [i for i, s in enumerate(pool) if s == "Fit_Model"]
            if fs:
                ops.append({"op": "export", "from": rng.choice(fs), "faults": []})
    ops.append({"op": "search_table", "faults": []})
    return {"config": {"cse": False}, "model": d, "matrices": mats, "ops": ops, "faults": []}


def execute(schedule) -> Result:
    from formak import python, ui
    from formak.exceptions import ModelFitError
    from formak.ui_state_machine import StateId

    res = Result()
    d = schedule["model"]
    res.log.append("model " + models.digest(d))
    b = models.build(d)
    mats = {k: (np.array([[xf(v) for v in row] for row in m], dtype=float) if m else np.zeros((0, 1))) for k, m in schedule["matrices"].items()}
    sid = {"Start": StateId.Start, "Symbolic_Model": StateId.Symbolic_Model, "Fit_Model": StateId.Fit_Model}
    pool = [(ui.DesignManager(name="fsim"), ["Start"], None)]  # (object, reference path, grid)
    grid_objs = {}  # op index -> the dict object handed to fit_model there
    seam = MinimizeSeam(getattr(python, "minimize", None) or __import__("scipy.optimize", fromlist=["minimize"]).minimize)
    had_name = hasattr(python, "minimize")
    if had_name:
        python.minimize = seam

    def check_all(i):
        for j, (obj, path, _g) in enumerate(pool):
            want = [sid[s] for s in path]
            if obj.history() != want:
                res.add("C18", "history", "C18:py:history", i, f"history() of pooled state {j} == {path}", f"{[getattr(h, 'name', h) for h in obj.history()]}")
            if obj.state_id() != sid[path[-1]]:
                res.add("C18", "state_id", "C18:py:state_id", i, f"state {path[-1]}", f"{obj.state_id()}")
            if sorted(obj.available_transitions()) != sorted(GRAPH[path[-1]]):
                res.add("C18", "available_transitions", f"C18:py:available_transitions:{path[-1]}", i, f"{sorted(GRAPH[path[-1]])}", f"{obj.available_transitions()}")

    def do_search(i, j, target_name):
        obj, path, _g = pool[j]
        want = bfs(path[-1], target_name)
        try:
            with contextlib.redirect_stdout(io.StringIO()):
                got = obj.search(sid[target_name])
        except ValueError:
            got = "ValueError"
        except Exception as e:  # noqa: BLE001
            got = f"{type(e).__name__}"
        if want is None:
            if got != "ValueError":
                res.add("C18", "search_unreachable", f"C18:py:search_unreachable:{path[-1]}->{target_name}", i, "ValueError for an unreachable state", f"{got}")
        elif got != want:
            res.add("C18", "search_path", f"C18:py:search_path:{path[-1]}->{target_name}", i, f"shortest path {want}", f"{got}")
        res.abstract.append(f"search|{path[-1]}->{target_name}")
        return got if isinstance(got, list) else None

    try:
        for i, op in enumerate(schedule["ops"]):
            kind = op["op"]
            for f in op["faults"]:
                res.stats["fault:" + f] += 1
            if kind == "symbolic_model":
                obj, path, _g = pool[op["from"]]
                new = obj.symbolic_model(model=b["model"])
                pool.append((new, path + ["Symbolic_Model"], None))
                res.abstract.append("symbolic_model")
            elif kind == "fit_model":
                if op["from"] >= len(pool):
                    continue
                obj, path, _g = pool[op["from"]]
                if path[-1] != "Symbolic_Model":
                    continue
                X = mats[op["data"]]
                grid = {"process_noise": [b["process_noise"]], "sensor_models": [b["sensor_models"]], "sensor_noises": [b["sensor_noises"]], "calibration_map": [b["calibration_map"]]}
                grid.update({k: list(v) for k, v in op["grid"].items()})
                eg = op.get("extra_grid") or {}
                if "calibration_shift" in eg:
                    second = {k_: v + eg["calibration_shift"] for k_, v in b["calibration_map"].items()}
                    grid["calibration_map"] = [b["calibration_map"], second] if i % 2 else [second, b["calibration_map"]]
                if "process_noise_factor" in eg:
                    second = {k_: v * eg["process_noise_factor"] for k_, v in b["process_noise"].items()}
                    grid["process_noise"] = [b["process_noise"], second] if i % 2 == 0 else [second, b["process_noise"]]
                grid.setdefault("common_subexpression_elimination", [False])
                if op.get("reuse_grid_of") in grid_objs:
                    grid = grid_objs[op["reuse_grid_of"]]  # the SAME dict object an earlier fit_model was given
                    res.stats["fault:grid_object_reused"] += 1
                grid_objs[i] = grid
                seam.mode = op["minimize"]
                n_before = len(pool)
                # observation only: the configuration every candidate estimator carries when the search fits it
                tried = []
                real_fit = python.SklearnEKFAdapter.fit

                def spy_fit(self_, *a_, _real=real_fit, _tried=tried, **k_):
                    _tried.append(config_dict(self_.config))
                    return _real(self_, *a_, **k_)

                python.SklearnEKFAdapter.fit = spy_fit
                try:
                    with contextlib.redirect_stdout(io.StringIO()), contextlib.redirect_stderr(io.StringIO()):
                        new = obj.fit_model(parameter_space=grid, data=X)
                    outcome = "ok"
                except ModelFitError:
                    outcome = "ModelFitError"
                except Exception as e:  # noqa: BLE001
                    outcome = f"raised:{type(e).__name__}:{str(e)[:80]}"
                finally:
                    seam.mode = "real"
                    python.SklearnEKFAdapter.fit = real_fit
                for k_ in ("common_subexpression_elimination", "extra_validation", "max_dt_sec", "innovation_filtering"):
                    if k_ in op["grid"]:
                        allowed = [repr(v) for v in op["grid"][k_]]
                        off = sorted({c[k_] for c in tried if c[k_] not in allowed})
                        if off:
                            res.add("C18", "candidate_not_in_grid", f"C18:py:candidate_not_in_grid:{k_}", i, f"every candidate the search fits has {k_} from the grid {allowed}", f"fitted with {off}")
                res.stats["probe:candidate_fits_observed"] += len(tried)
                res.stats[f"probe:fit_model_{outcome.split(':')[0]}"] += 1
                if len(X) < 3:
                    if outcome != "ModelFitError":
                        res.add("C18", "small_data", "C18:py:small_data_not_refused", i, f"ModelFitError for {len(X)} rows", outcome)
                        if outcome == "ok":
                            pool.append((new, path + ["Fit_Model"], grid))
                elif outcome == "ok":
                    g_rec = {k: v for k, v in op["grid"].items()}
                    if d["calibration"]:
                        names_c = sorted(d["calibration"])
                        g_rec["calibration_map_values"] = [[float({str(k_): v for k_, v in m_.items()}[n_]) for n_ in names_c] for m_ in grid["calibration_map"]]
                    pool.append((new, path + ["Fit_Model"], g_rec))
                    _check_export(res, i, new, g_rec)
                else:
                    # a failing fit inside the transition is tolerated (minimisation may fail); it must not create a state
                    res.stats["probe:fit_model_failed_inside"] += 1
                    break
                res.abstract.append(f"fit_model|{op['data']}|{outcome.split(':')[0]}|grid={sorted(op['grid'])}")
            elif kind == "search":
                j = op["from"] if op["from"] < len(pool) else 0
                if op.get("target") is None:
                    bad = BAD_TARGETS[op["bad_target"]]
                    try:
                        with contextlib.redirect_stdout(io.StringIO()):
                            got = pool[j][0].search(bad)
                        res.add("C18", "bad_target", "C18:py:bad_target_accepted", i, f"ValueError for a target that is not a state id ({bad!r})", f"returned {got}")
                    except ValueError:
                        pass
                    except Exception as e:  # noqa: BLE001
                        res.add("C18", "bad_target", f"C18:py:bad_target:{type(e).__name__}", i, "ValueError for a target that is not a state id", f"{type(e).__name__}")
                    res.abstract.append("search|bad")
                else:
                    got = do_search(i, j, op["target"])
                    if got is not None and got == bfs(pool[j][1][-1], op["target"]) and "fit_model" not in got:
                        # follow the returned path: it must end in the requested state
                        cur = pool[j][0]
                        for name in got:
                            cur = getattr(cur, name)(model=b["model"])
                        if cur.state_id() != sid[op["target"]]:
                            res.add("C18", "follow", "C18:py:follow", i, f"following {got} ends in {op['target']}", f"{cur.state_id()}")
                        res.stats["probe:paths_followed"] += 1
            elif kind == "search_table":
                # the 3x3 (state, target) table, exhaustively, from every pooled state kind
                kinds = {}
                for j, (_o, path, _g) in enumerate(pool):
                    kinds.setdefault(path[-1], j)
                for sname, j in kinds.items():
                    for tname in STATES:
                        do_search(i, j, tname)
                        res.stats["probe:search_table_cells"] += 1
            elif kind == "inspect":
                pass
            elif kind == "export":
                if op["from"] < len(pool) and pool[op["from"]][1][-1] == "Fit_Model":
                    _check_export(res, i, pool[op["from"]][0], pool[op["from"]][2] or {})
            check_all(i)
            res.ops += 1
            res.log.append(f"{i} {kind} pool={[p[1][-1] for p in pool]}")
    finally:
        if had_name:
            python.minimize = seam.real
    res.stats["probe:pool_states=" + ",".join(sorted({p[1][-1] for p in pool}))] += 1
    return res


def _check_export(res, i, state, grid):
    with contextlib.redirect_stdout(io.StringIO()):
        f = state.export_python()
    got = config_dict(f.config)
    est_cfg = config_dict(state.fit_estimator.config)
    for k in ("common_subexpression_elimination", "extra_validation", "max_dt_sec", "innovation_filtering"):
        if k in grid:
            allowed = [repr(v) for v in grid[k]]
            if got[k] not in allowed:
                res.add("C18", "export_not_in_grid", f"C18:py:export_not_in_grid:{k}", i, f"exported {k} is one of the grid values {allowed}", got[k])
        elif k == "common_subexpression_elimination":
            if got[k] != "False":  # the harness always puts [False] in the grid for this key
                res.add("C18", "export_not_in_grid", f"C18:py:export_not_in_grid:{k}", i, "exported common_subexpression_elimination from the grid [False]", got[k])
        elif got[k] != DEFAULTS[k]:
            res.add("C18", "export_default", f"C18:py:export_default:{k}", i, f"{k} not in the grid keeps its default {DEFAULTS[k]}", got[k])
    if got != est_cfg:
        res.add("C18", "export_vs_estimator", "C18:py:export_vs_estimator", i, f"exported filter carries the selected estimator's configuration {est_cfg}", f"{got}")
    # ... and exactly the selected calibration and noise parameters (built by hand from the selected estimator's parameters)
    try:
        from formak import python as _py

        e = state.fit_estimator
        with contextlib.redirect_stdout(io.StringIO()):
            hand = _py.compile_ekf(e.symbolic_model, e.process_noise, e.sensor_models, e.sensor_noises, e.calibration_map, config=e.config)
        if f.calibration_vector.tobytes() != hand.calibration_vector.tobytes():
            res.add("C18", "export_calibration", "C18:py:export_calibration", i, f"exported filter carries the selected calibration {hand.calibration_vector.T.tolist()}", f"{f.calibration_vector.T.tolist()}")
        if f.process_noise.tobytes() != hand.process_noise.tobytes():
            res.add("C18", "export_process_noise", "C18:py:export_process_noise", i, f"exported filter carries the selected process noise {hand.process_noise.tolist()}", f"{f.process_noise.tolist()}")
        for k_ in sorted(hand.sensor_noises):
            if f.sensor_noises[k_].data.tobytes() != hand.sensor_noises[k_].data.tobytes():
                res.add("C18", "export_sensor_noise", "C18:py:export_sensor_noise", i, f"exported filter carries the selected noise of sensor {k_}", f"{f.sensor_noises[k_].data.T.tolist()}")
    except AttributeError:
        pass
    # the selected calibration / process noise must come from the grid
    gcm = grid.get("calibration_map_values")
    if gcm is not None and [float(v) for v in f.calibration_vector[:, 0]] not in gcm:
        res.add("C18", "export_not_in_grid", "C18:py:export_not_in_grid:calibration_map", i, f"exported calibration is one of the grid entries {gcm}", f"{f.calibration_vector.T.tolist()}")
    res.stats["probe:exports_checked"] += 1


def simplify(schedule):
    for op_i, op in enumerate(schedule["ops"]):
        if op["op"] == "fit_model" and op.get("minimize") == "real":
            s = json.loads(json.dumps(schedule))
            s["ops"][op_i]["minimize"] = "early_stop:1"
            yield s
