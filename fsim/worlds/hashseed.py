"""W5 hashseed: code generation in FRESH interpreters under seeded PYTHONHASHSEED x declaration order x container kind (C15).

PYTHONHASHSEED changes the iteration order of every set of sympy symbols; it is a per-process source of
nondeterminism that cannot be controlled from inside, so the simulator owns it from outside: one subprocess per seed.
"""
from __future__ import annotations

import difflib
import json
import os
import subprocess
import sys

from fsim import core, models
from fsim.core import Result

WORKER = os.path.join(core.VERIF_DIR, "fsim", "hashseed_worker.py")
CONTAINERS = ["set", "list", "tuple", "frozenset"]


def generate(rng, prop, tier):
    n_models = 2 if tier == "quick" else 3
    ms = []
    for _ in range(n_models):
        if rng.random() < 0.2:
            ms.append(models.curated(rng.choice(["mass_zva", "cv", "rect", "direct2", "landmark"])))
        else:
            ms.append(models.draw(rng, symbol_keys=False, min_sensors=1))
    seeds = [0, rng.choice([1, 2, 4294967295]), rng.randrange(1, 2**32), rng.randrange(1, 2**32)]
    if tier != "quick":
        seeds += [rng.randrange(1, 2**32) for _ in range(2)]
    variants = [{"shuffle": 0, "containers": {"state": "set", "control": "set", "calibration": "set"}}]
    for _ in range(2 if tier == "quick" else 3):
        variants.append({"shuffle": rng.randrange(1, 10**6), "containers": {k: rng.choice(CONTAINERS) for k in ("state", "control", "calibration")}})
    # each environment generates the definitions in another order (state carried from one generation to the next in a process)
    orders = []
    for e in range(len(seeds)):
        o = list(range(len(ms)))
        o = o[e % len(o):] + o[: e % len(o)]
        if e >= len(o):
            rng.shuffle(o)
        orders.append(o)
    ops = [{"op": "env", "hashseed": s, "order": orders[e], "faults": ["hashseed", "generation_order"] + (["decl_perm", "container"] if len(variants) > 1 else [])} for e, s in enumerate(seeds)]
    return {"config": {"cse": rng.random() < 0.7, "config_as_dict": rng.random() < 0.4}, "models": ms, "variants": variants, "ops": ops, "faults": []}


def run_env(schedule, hashseed, keep_text=False, order=None):
    env = dict(os.environ)
    env["PYTHONHASHSEED"] = str(hashseed)
    if keep_text:
        env["FSIM_KEEP_TEXT"] = "1"
    job = {"models": schedule["models"], "variants": schedule["variants"], "cse": schedule["config"]["cse"], "order": order, "config_as_dict": schedule["config"].get("config_as_dict", False)}
    cp = subprocess.run([sys.executable, WORKER], input=json.dumps(job), capture_output=True, text=True, env=env, cwd=core.REPO, timeout=600)
    line = [l for l in cp.stdout.splitlines() if l.startswith("RESULT ")]
    if cp.returncode != 0 or not line:
        raise RuntimeError(f"hashseed worker failed rc={cp.returncode}: {cp.stderr[-500:]}")
    return json.loads(line[0][7:])


def execute(schedule) -> Result:
    res = Result()
    envs = []
    for op in schedule["ops"]:
        order = [j for j in (op.get("order") or range(len(schedule["models"]))) if j < len(schedule["models"])]
        order += [j for j in range(len(schedule["models"])) if j not in order]
        recs = run_env(schedule, op["hashseed"], order=order)
        res.stats["fault:generation_order"] += 1
        envs.append((op["hashseed"], recs))
        res.ops += 1
        res.stats["fault:hashseed"] += 1
        res.stats["generations"] += len(recs) + len(schedule["models"])
        res.log.append(f"env {op['hashseed']} " + json.dumps(recs, sort_keys=True))
    res.stats["fault:decl_perm"] += max(0, len(schedule["variants"]) - 1) * len(envs)
    res.stats["fault:container"] += max(0, len(schedule["variants"]) - 1) * len(envs)
    nm, nv = len(schedule["models"]), len(schedule["variants"])
    for mi in range(nm):
        base = None
        for ei, (hs, recs) in enumerate(envs):
            for r in recs:
                if r["model"] != mi:
                    continue
                if "error" in r:
                    res.add("C14", "refused_valid", f"C14:generation:refused_valid:{r['error'].split(':')[0]}", ei, "a valid definition is accepted under every declaration order/container", f"hashseed={hs} variant={r['variant']}: {r['error']}")
                    continue
                res.abstract.append(f"m{mi}|v{r['variant']}|{schedule['variants'][r['variant']]['containers']['state']}")
                if not r["twice_equal"]:
                    res.add("C15", "same_interpreter_twice", "C15:same_interpreter_twice", ei, "generating twice in one interpreter (the second time over stale, longer files at the output paths) gives identical text and layout", f"model {mi} variant {r['variant']} hashseed {hs}")
                if not r.get("rerender_equal", True):
                    res.add("C15", "render_twice", "C15:render_twice", ei, "rendering the same generator object a second time (header_from_ast / source_from_ast) gives the text that was written", f"model {mi} variant {r['variant']} hashseed {hs}")
                if base is None:
                    base = (hs, r)
                    continue
                for what in ("header", "source", "layout"):
                    if r[what] != base[1][what]:
                        axis = "hashseed" if r["variant"] == base[1]["variant"] else "declaration" if hs == base[0] else "hashseed+declaration"
                        res.add("C15", f"{what}_differs", f"C15:{what}_differs:{axis}", ei, f"{what} of model {mi} identical in every environment (sha {base[1][what][:12]} under hashseed={base[0]} variant={base[1]['variant']})", f"sha {r[what][:12]} under hashseed={hs} variant={r['variant']}" + (_diff(schedule, mi, base, (hs, r), what) if not any(v["property"] == "C15" for v in res.violations) and os.environ.get("FSIM_C15_DIFF", "1") == "1" else ""))
                        break
    return res


def _diff(schedule, mi, a, b, what):
    if what == "layout":
        return ""
    try:
        s = dict(schedule, models=[schedule["models"][mi]])
        ta = next(r for r in run_env(dict(s, variants=[schedule["variants"][a[1]["variant"]]]), a[0], keep_text=True))
        tb = next(r for r in run_env(dict(s, variants=[schedule["variants"][b[1]["variant"]]]), b[0], keep_text=True))
        d = list(difflib.unified_diff(ta[what + "_text"].splitlines(), tb[what + "_text"].splitlines(), lineterm="", n=0))
        return " | diff: " + " ".join(d[2:8])[:400]
    except Exception as e:  # noqa: BLE001
        return f" (diff unavailable: {e})"


def simplify(schedule):
    for i in range(len(schedule["models"])):
        if len(schedule["models"]) > 1:
            s = json.loads(json.dumps(schedule))
            del s["models"][i]
            yield s
    for i in range(len(schedule["variants"])):
        if len(schedule["variants"]) > 1:
            s = json.loads(json.dumps(schedule))
            del s["variants"][i]
            yield s
