"""W3 cpp_gen / lockstep: the REAL generator output (formak.cpp) compiled against the REAL ManagedFilter.h and
innovation_filtering.h (and a stand-in <Eigen/Dense>), driven in lockstep with the real Python filter + runtime.

Decides C07 (Python and C++ agree step for step), C12 (generated filter under the C++ runtime, 4 control x calibration
combinations, tick == by-hand replay bit for bit) and the C++ clauses of C06 (generated filter + removeInnovation<m>).
"""
from __future__ import annotations

import contextlib
import io
import json
import math
import os
import shutil
import subprocess
import sys

import numpy as np

from fsim import cppbuild, models, reference
from fsim.core import Result, fx, xf
from fsim.worlds import ekf as ekfw

TOL = 1e-9
MAXDT_MENU = [0.1, 0.05, 0.25, 0.07, 1.0, 1.0 / 60.0, 1.0 / 30.0, 0.123456789, 0.30000000000000004]  # incl. values with > 6 significant digits
CPP_DEFAULTS = {"cse": True, "innovation_filtering": 5.0, "max_dt_sec": 0.1}  # documented defaults of cpp.Config
K_MENU = [None, 1.0, 5.0, 3.0, 4, 7.0 / 3.0, 1, 2.3456789, 0.123456789]  # incl. ints and long mantissas (a generator that prints
# the constant with 6 significant digits moves the threshold by ~1e-6: boundary readings at 4e-9..1e-7 from it decide differently)
CPP_UNSAFE_MODELS = {"managed"}  # its symbol names collide with parameter names the generator emits ('state')


# --------------------------------------------------------------------------- generation
def generate(rng, prop, tier):
    combo = rng.randrange(4)
    want_ctl, want_cal = bool(combo & 1), bool(combo & 2)
    for _ in range(200):
        if rng.random() < 0.2:
            d = models.curated(rng.choice([m for m in models.CURATED if m not in CPP_UNSAFE_MODELS]))
        else:
            big = rng.random() < 0.2
            d = models.draw(rng, max_states=4 if big else 3, max_controls=2, max_cal=2, max_sensors=3, min_sensors=0 if prop == "C12" else 1, symbol_keys=False)
        if bool(d["control"]) == want_ctl and bool(d["calibration"]) == want_cal:
            break
    cfg = {"cse": rng.random() < 0.5, "innovation_filtering": rng.choice(K_MENU + ([7.0 / 3.0, 2.3456789, 0.123456789] * 2 if prop == "C06" else [])), "max_dt_sec": fx(rng.choice(MAXDT_MENU)),
           "config_as_dict": rng.random() < 0.4}
    # how the options reach the generator (and what an EARLIER generation in the same process was given): the accepted
    # spellings are a Config, a dict (missing keys = documented defaults) and None (all defaults)
    r_ = rng.random()
    mode = "Config" if r_ < 0.4 else "dict" if r_ < 0.6 else "dict_partial" if r_ < 0.75 else "none" if r_ < 0.85 else "shared_dict"
    if mode == "none":
        cfg.update(cse=CPP_DEFAULTS["cse"], innovation_filtering=CPP_DEFAULTS["innovation_filtering"], max_dt_sec=fx(CPP_DEFAULTS["max_dt_sec"]))
    elif mode == "dict_partial":
        omit = rng.sample(["cse", "innovation_filtering", "max_dt_sec"], rng.randint(1, 2))
        for k_ in omit:
            cfg[k_] = fx(CPP_DEFAULTS[k_]) if k_ == "max_dt_sec" else CPP_DEFAULTS[k_]
        cfg["config_omit"] = sorted(omit)
    cfg["config_mode"] = mode
    cfg["config_as_dict"] = mode in ("dict", "dict_partial", "shared_dict")
    # the earlier generation's own options: distinctive values, some keys only
    dk = {"innovation_filtering": rng.choice([2.0, 0.75]), "max_dt_sec": rng.choice([0.5, 0.04]), "common_subexpression_elimination": not cfg["cse"]}
    cfg["decoy_config"] = {k_: dk[k_] for k_ in sorted(rng.sample(sorted(dk), rng.randint(1, 3)))}
    if d["sensors"] and rng.random() < 0.1:
        # an exact pseudo-measurement: one reading declared with variance exactly 0.0 (a falsy value)
        key = rng.choice(sorted(d["sensors"]))
        r = rng.choice(sorted(d["sensors"][key]["noise"]))
        d["sensors"][key]["noise"][r] = fx(0.0)
        d["tags"] = sorted(set(d["tags"]) | {"zero_sensor_noise"})
    if prop in ("C06", "C07") and rng.random() < (0.2 if prop == "C06" else 0.06):
        # exactly representable NIS tie (and +-1 ulp) on the selector model, through the GENERATED C++ filter
        t = ekfw._gen_tie(rng, models.curated("direct2"), dict(cfg, mode="direct"))
        t["config"] = dict(cfg, innovation_filtering=t["config"]["innovation_filtering"], config_mode="Config", config_as_dict=False)
        t["config"].pop("config_omit", None)
        for op in t["ops"]:
            if op["op"] == "predict":
                op["control"] = {}
        return {"config": t["config"], "model": t["model"], "decoys": [], "init": t["init"], "ops": t["ops"], "nis_ops": [], "faults": ["tie"]}
    # state carried across generations: other definitions generated in the same process before the one under test
    # (sharing sensor names with it), as a build script that emits several filters does
    decoys = []
    if rng.random() < 0.35 or cfg["config_mode"] in ("none", "dict_partial", "shared_dict"):
        for _ in range(rng.randint(1, 2)):
            dd = models.draw(rng, max_states=3, max_controls=2, max_cal=2, max_sensors=2, min_sensors=1, symbol_keys=False)
            # same sensor names as the model under test, different models/noise
            keys = list(d["sensors"])
            dd["sensors"] = {(keys[j] if j < len(keys) else k_): v for j, (k_, v) in enumerate(dd["sensors"].items())}
            decoys.append(dd)
    max_dt = xf(cfg["max_dt_sec"])
    k = cfg["innovation_filtering"]
    ref = ekfw.cached_ref(d)
    p = ekfw.profile("C06" if prop == "C06" else "C05")
    x, P, tags = ekfw.draw_init(rng, d, p)
    init = {"time": fx(rng.choice([0.0, 10.0, -2.5])), "state": {s: fx(v) for s, v in x.items()}, "covariance": [[fx(v) for v in row] for row in P], "tags": tags}
    sensors = sorted(d["sensors"])
    ops = []
    n_ops = rng.randint(6, 14 if tier == "quick" else 40)
    t_held = xf(init["time"])
    rid = 0
    try:
        for _ in range(n_ops):
            if max(abs(v) for v in x.values()) > 1e3 or np.max(np.abs(P)) > 1e5:
                break
            r = rng.random()
            ctl = {u: fx(rng.uniform(-2, 2)) for u in ref.U}
            uf = {u: xf(v) for u, v in ctl.items()}
            if r < 0.3:
                dt = rng.choice([-1, 1, 1]) * rng.uniform(1e-3, max_dt)
                ops.append({"op": "predict", "dt": fx(dt), "control": ctl, "faults": []})
                nxt = ref.predict(dt, x, P, uf)
                if nxt is None:
                    raise ekfw.GenStop()
                x, P, _ = nxt
            elif r < 0.6 and sensors:
                key = rng.choice(sensors)
                z, faults = ekfw._gen_reading(rng, ref, key, x, P, k, p, tags)
                ops.append({"op": "update", "sensor": key, "values": {r_: fx(v) for r_, v in z.items()}, "faults": faults})
                u = ref.update(key, x, P, z, k)
                if u is None:
                    raise ekfw.GenStop()
                if not (k is not None and u["nis"] > u["thr"]):
                    x, P = u["x_post"], u["P_post"]
            else:
                # a tick through both runtimes (persistent managed filter on each side)
                nr = rng.choice([0, 0, 1, 2, 3]) if sensors else 0
                t_now = t_held + rng.uniform(0.2, 6) * max_dt
                long_gap = rng.random() < 0.04
                if long_gap:
                    t_now = t_held + rng.uniform(1001, 1300) * max_dt  # more than 1000 steps in one propagation
                readings, tf = [], []
                probe_pair = sensors and rng.random() < 0.12 and not long_gap
                if long_gap:
                    tf.append("long_gap")
                if probe_pair:
                    # output-only tick to T, then a tick to the SAME T whose readings are all stamped at the held time
                    ops.append({"op": "tick", "t_out": fx(t_now), "control": ctl, "readings": [], "has_list": False, "faults": []})
                    nr = rng.choice([1, 2])
                for _j in range(nr):
                    key = rng.choice(sensors)
                    q = 0.4 if probe_pair else rng.random()
                    f = []
                    if q < 0.25:
                        st = t_held - rng.uniform(0, 5) * max_dt
                        f.append("stale")
                    elif q < 0.35:
                        st = t_now + rng.uniform(0, 3) * max_dt
                        f.append("future")
                    elif q < 0.45:
                        st = t_held
                        f.append("burst")
                    else:
                        st = t_held + rng.uniform(0, 1) * (t_now - t_held)
                    x, P = ekfw._ref_propagate(ref, x, P, t_held, st, max_dt, uf)
                    t_held = st
                    z, cf = ekfw._gen_reading(rng, ref, key, x, P, k, p, tags)
                    u = ref.update(key, x, P, z, k)
                    if u is None:
                        raise ekfw.GenStop()
                    if not (k is not None and u["nis"] > u["thr"]):
                        x, P = u["x_post"], u["P_post"]
                    rid += 1
                    readings.append({"t": fx(st), "sensor": key, "rid": rid, "values": {r_: fx(v) for r_, v in z.items()}, "faults": f + cf})
                t_out = t_now
                if probe_pair:
                    tf.append("same_t_out")
                elif rng.random() < 0.15:
                    t_out = t_held - rng.uniform(0, 4) * max_dt
                    tf.append("clock_jump")
                elif rng.random() < 0.1:
                    t_out = t_held
                    tf.append("zero_tick")
                elif ops and ops[-1]["op"] == "tick" and rng.random() < 0.15:
                    t_out = xf(ops[-1]["t_out"])
                    tf.append("same_t_out")
                ops.append({"op": "tick", "t_out": fx(t_out), "control": ctl, "readings": readings, "has_list": bool(readings) or rng.random() < 0.5, "faults": tf})
    except (ekfw.GenStop, *reference.NUMERIC):
        pass
    # NIS helper triples for removeInnovation<m> (m = 1..4), boundary-targeted
    nis_ops = []
    for _ in range(16):
        m = rng.randint(1, 4)
        kk = rng.choice([0.5, 1.0, 3.0, 5.0])
        A = np.array([[rng.uniform(-1, 1) for _ in range(m)] for _ in range(m)])
        S = A @ A.T + 0.2 * np.eye(m)
        Sinv = np.linalg.inv(S)
        dvec = np.array([[rng.gauss(0, 1)] for _ in range(m)])
        q = float((dvec.T @ Sinv @ dvec).item())
        thr = kk * math.sqrt(2 * m) + m
        delta = rng.choice([-1, 1]) * rng.choice([4e-9, 1e-8, 3e-8, 1e-7, 1e-4, 0.05, 0.5, 3.0])
        alpha = math.sqrt(max(thr * (1 + delta), 0.0) / q)
        nis_ops.append({"m": m, "k": fx(kk), "z": [fx(alpha * v[0]) for v in dvec], "Sinv": [[fx(v) for v in row] for row in Sinv]})
    if rng.random() < 0.5:  # exact tie for the helper: S^-1 = diag(1,2), z = (2,2), k = 5: NIS = 12 = 5*2+2
        nis_ops.append({"m": 2, "k": fx(5.0), "z": [fx(2.0), fx(2.0)], "Sinv": [[fx(1.0), fx(0.0)], [fx(0.0), fx(2.0)]], "tie": True})
    return {"config": cfg, "model": d, "decoys": decoys, "init": init, "ops": ops, "nis_ops": nis_ops, "faults": tags + d.get("tags", []) + (["prior_generation"] if decoys else [])}


# --------------------------------------------------------------------------- C++ driver text
def driver_source(d):
    S, U, C = sorted(d["state"]), sorted(d["control"]), sorted(d["calibration"])
    n = len(S)
    has_ctl, has_cal = bool(U), bool(C)
    cal_param = ", const Calibration& cal" if has_cal else ""
    cal_arg = ", cal" if has_cal else ""
    gcal_arg = ", g_cal" if has_cal else ""
    ctl_param = ", const Control& ctl" if has_ctl else ""
    ctl_arg = ", ctl" if has_ctl else ""
    sensors = sorted(d["sensors"])
    L = []
    A = L.append
    A("#include <ns/m.h>\n#include <formak/runtime/ManagedFilter.h>\n#include <formak/innovation_filtering.h>")
    A("#include <cstdio>\n#include <cstdlib>\n#include <cstring>\n#include <functional>\n#include <iostream>\n#include <memory>\n#include <sstream>\n#include <string>\n#include <vector>")
    A("using namespace ns;\nusing EKF = ExtendedKalmanFilter;\nusing SV = StateAndVariance;")
    A("static double rd(std::istringstream& ls) { std::string t; ls >> t; return std::strtod(t.c_str(), nullptr); }")
    # by-name marshalling: values arrive in sorted-name order; fields are set/read through the *named* API
    A("static SV read_sv(std::istringstream& ls) {\n  StateOptions o;")
    for s in S:
        A(f"  o.{s} = rd(ls);")
    A("  SV sv; sv.state = State(o);")
    A(f"  for (int i = 0; i < {n}; ++i) for (int j = 0; j < {n}; ++j) sv.covariance.data(i, j) = rd(ls);\n  return sv;\n}}")
    A("static void print_sv(const char* tag, const SV& sv) {\n  std::printf(\"%s\", tag);")
    for s in S:
        A(f"  std::printf(\" %a\", sv.state.{s}());")
    A(f"  for (int i = 0; i < {n}; ++i) for (int j = 0; j < {n}; ++j) std::printf(\" %a\", sv.covariance.data(i, j));\n  std::printf(\"\\n\");\n}}")
    # named accessors: covariance diagonal by name, const and non-const state accessors
    A("static void print_named(const SV& sv) {\n  SV m = sv; std::printf(\"V\");")
    for s_ in S:
        A(f"  std::printf(\" %a %a %a\", sv.covariance.{s_}(), m.covariance.{s_}(), m.state.{s_}());")
    A("  std::printf(\"\\n\");\n}")
    A(f"static bool same_sv(const SV& a, const SV& b) {{\n  for (int i = 0; i < {n}; ++i) {{ double x = a.state.data(i, 0), y = b.state.data(i, 0); if (std::memcmp(&x, &y, sizeof x)) return false; }}")
    A(f"  for (int i = 0; i < {n}; ++i) for (int j = 0; j < {n}; ++j) {{ double x = a.covariance.data(i, j), y = b.covariance.data(i, j); if (std::memcmp(&x, &y, sizeof x)) return false; }}\n  return true;\n}}")
    if has_ctl:
        A("static Control read_ctl(std::istringstream& ls) {\n  ControlOptions o;")
        for u in U:
            A(f"  o.{u} = rd(ls);")
        A("  return Control(o);\n}")
    if has_cal:
        A("static Calibration g_cal;")
    # recording subclass: logs every prediction the runtime issues, then forwards to the generated code
    A("struct Call { int kind; double dt; std::function<SV(const EKF&, const SV&)> apply; };\nstatic std::vector<Call> g_log;\nstatic std::vector<std::function<SV(const EKF&, const SV&)>> g_inputs;\nstatic bool g_fold_ok = true;")
    if has_ctl:
        A("static Control g_ctl;")
    A("struct Recording : EKF {")
    A(f"  SV process_model(double dt, const SV& s{cal_param}{ctl_param}) const {{")
    A("    std::printf(\"P %a\\n\", dt);")
    A(f"    g_log.push_back(Call{{0, dt, nullptr}});\n    return EKF::process_model(dt, s{cal_arg}{ctl_arg});\n  }}\n}};")
    A("template <typename T> struct Logged : T {\n  int sensor; long rid;\n  Logged(const T& t, int s, long r) : T(t), sensor(s), rid(r) {}")
    A(f"  SV sensor_model(const EKF& impl, const SV& st{cal_param}) const override {{")
    A("    std::printf(\"S %d %ld\\n\", sensor, rid);")
    A(f"    T copy = *this;\n    g_log.push_back(Call{{1, 0.0, [copy](const EKF& e, const SV& s) {{ return copy.T::sensor_model(e, s{gcal_arg}); }}}});")
    A(f"    return T::sensor_model(impl, st{cal_arg});\n  }}\n}};")
    A("using MF = formak::runtime::ManagedFilter<Recording>;\nusing MFPlain = formak::runtime::ManagedFilter<EKF>;")
    A("static_assert(MFPlain::compatible, \"generated filter must pass the runtime's compatibility check\");\nstatic_assert(MF::compatible);")
    # readings
    for si, key in enumerate(sensors):
        T = key.title()
        rn = sorted(d["sensors"][key]["readings"])
        A(f"static {T} read_reading_{si}(std::istringstream& ls) {{\n  {T}Options o;")
        for r in rn:
            A(f"  o.{r} = rd(ls);")
        A(f"  return {T}(o);\n}}")
    A("static MF::StampedReading read_stamped(std::istringstream& ls) {\n  double t = rd(ls); int si; long rid; ls >> si >> rid;\n  switch (si) {")
    for si, key in enumerate(sensors):
        T = key.title()
        A(f"    case {si}: {{ {T} r = read_reading_{si}(ls); g_inputs.push_back([r](const EKF& e, const SV& s) {{ return r.{T}::sensor_model(e, s{gcal_arg}); }});")
        A(f"      if (rid % 2) return MF::wrap(t, Logged<{T}>(r, {si}, rid));  // temporary")
        A(f"      Logged<{T}> scratch(r, {si}, rid); auto w = MF::wrap(t, scratch); scratch = Logged<{T}>({T}(), {si}, -rid); return w; }}  // lvalue, reused by the caller afterwards")
    A("  }\n  std::abort();\n}")
    # plain (unlogged) instantiation: construction and ticks with and without readings must compile for the generated type itself
    A("[[maybe_unused]] static SV compile_only_plain() {\n  SV sv;")
    A(f"  MFPlain mf(0.0, sv{gcal_arg});")
    if sensors:
        T0 = sensors[0].title()
        if has_ctl:
            A(f"  Control c; mf.tick(0.1, c); return mf.tick(0.2, c, {{MFPlain::wrap(0.15, {T0}())}});")
        else:
            A(f"  mf.tick(0.1); return mf.tick(0.2, {{MFPlain::wrap(0.15, {T0}())}});")
    else:
        if has_ctl:
            A("  Control c; mf.tick(0.1, c); return mf.tick(0.2, c, std::vector<MFPlain::StampedReading>{});")
        else:
            A("  mf.tick(0.1); return mf.tick(0.2, std::vector<MFPlain::StampedReading>{});")
    A("}")
    # by-hand replay of the logged calls on a copy of the held estimate, with a plain generated filter
    A("static SV g_held; static bool g_had_sensor = false; static SV g_after_last_sensor;")
    # the fold done by hand: predictions with the step split the runtime chose, sensor updates with the INPUT readings in list order
    A("static SV by_hand(const SV& start) {\n  EKF hand; SV s = start; g_had_sensor = false; g_fold_ok = true; size_t j = 0;\n  for (const auto& c : g_log) {")
    A(f"    if (c.kind == 0) s = hand.process_model(c.dt, s{gcal_arg}{', g_ctl' if has_ctl else ''});\n    else {{ if (j >= g_inputs.size()) {{ g_fold_ok = false; break; }} s = g_inputs[j++](hand, s); g_had_sensor = true; g_after_last_sensor = s; }}\n  }}\n  if (j != g_inputs.size()) g_fold_ok = false;\n  return s;\n}}")
    A("template <int M> static int nis_cmd(std::istringstream& ls) {\n  double k = rd(ls); Eigen::Matrix<double, M, 1> z; Eigen::Matrix<double, M, M> si;")
    A("  for (int i = 0; i < M; ++i) z(i, 0) = rd(ls);\n  for (int i = 0; i < M; ++i) for (int j = 0; j < M; ++j) si(i, j) = rd(ls);")
    A("  return formak::innovation_filtering::edit::removeInnovation<M>(k, z, si) ? 1 : 0;\n}")
    A("int main() {\n  EKF ekf; std::unique_ptr<MF> mf; std::string line;\n  while (std::getline(std::cin, line)) {\n    std::istringstream ls(line); std::string cmd; ls >> cmd;")
    if has_cal:
        A("    if (cmd == \"CAL\") { CalibrationOptions o;")
        for c in C:
            A(f"      o.{c} = rd(ls);")
        A("      g_cal = Calibration(o); continue; }")
    A("    if (cmd == \"PREDICT\") { double dt = rd(ls); SV sv = read_sv(ls);")
    if has_ctl:
        A("      Control ctl = read_ctl(ls);")
    A(f"      SV out = ekf.process_model(dt, sv{gcal_arg}{ctl_arg}); print_sv(\"R\", out); continue; }}")
    A("    if (cmd == \"UPDATE\") { int si; ls >> si; SV sv = read_sv(ls); SV out;\n      switch (si) {")
    for si, key in enumerate(sensors):
        T = key.title()
        m = len(d["sensors"][key]["readings"])
        rn_ = sorted(d["sensors"][key]["readings"])
        acc = " ".join(f'std::printf(" %a", r.{r_}());' for r_ in rn_)
        A(f"        case {si}: {{ {T} r = read_reading_{si}(ls); std::printf(\"A\"); {acc} std::printf(\"\\n\"); out = ekf.sensor_model(sv{gcal_arg}, r); auto inn = ekf.innovations<{T}>();")
        A("          std::printf(\"I\"); if (inn) { for (int i = 0; i < %d; ++i) std::printf(\" %%a\", (*inn)(i, 0)); } else std::printf(\" none\"); std::printf(\"\\n\"); break; }" % m)
    A("        default: std::abort();\n      }\n      print_sv(\"R\", out); std::printf(\"D %d\\n\", same_sv(out, sv) ? 1 : 0); print_named(out); continue; }")
    A("    if (cmd == \"NEWMF\") { double t0 = rd(ls); SV sv = read_sv(ls); g_held = sv;")
    A(f"      mf = std::make_unique<MF>(t0, sv{gcal_arg}); continue; }}")
    A("    if (cmd == \"MFTICK\") { double t_out = rd(ls);")
    if has_ctl:
        A("      g_ctl = read_ctl(ls);")
    A("      int n, has_list; ls >> n >> has_list; std::vector<MF::StampedReading> readings; g_inputs.clear();\n      for (int i = 0; i < n; ++i) readings.push_back(read_stamped(ls));\n      g_log.clear(); SV out;")
    if has_ctl:
        A("      if (n > 0 || has_list) out = mf->tick(t_out, g_ctl, readings); else out = mf->tick(t_out, g_ctl);")
    else:
        A("      if (n > 0 || has_list) out = mf->tick(t_out, readings); else out = mf->tick(t_out);")
    A("      print_sv(\"R\", out); SV h = by_hand(g_held); std::printf(\"H %d\\n\", (same_sv(h, out) && g_fold_ok) ? 1 : 0); print_sv(\"B\", h);\n      if (g_had_sensor) g_held = g_after_last_sensor; continue; }")
    A("    if (cmd == \"NIS\") { int m; ls >> m; int dec = -1;\n      switch (m) { case 1: dec = nis_cmd<1>(ls); break; case 2: dec = nis_cmd<2>(ls); break; case 3: dec = nis_cmd<3>(ls); break; case 4: dec = nis_cmd<4>(ls); break; }\n      std::printf(\"D %d\\n\", dec); continue; }")
    A("    std::printf(\"E unknown %s\\n\", cmd.c_str());\n  }\n  std::fflush(stdout);\n  return 0;\n}")
    return "\n".join(L) + "\n"


# --------------------------------------------------------------------------- build one generated filter
def config_kw(cfg):
    kw = {"common_subexpression_elimination": cfg["cse"], "innovation_filtering": cfg["innovation_filtering"], "max_dt_sec": xf(cfg["max_dt_sec"])}
    for k_ in cfg.get("config_omit", []):
        kw.pop({"cse": "common_subexpression_elimination"}.get(k_, k_))
    return kw


def generate_cpp(d, cfg, workdir, config_obj=None):
    """Run the REAL generator entry point (cpp.compile_ekf) with sys.argv pointing into workdir.
    config_obj: a caller-owned options object to pass as is (shared between generations)."""
    from formak import cpp

    b = models.build(d)
    gen = os.path.join(workdir, "generated", "ns")
    os.makedirs(gen, exist_ok=True)
    header, source = os.path.join(gen, "m.h"), os.path.join(gen, "m.cpp")
    argv = sys.argv
    sys.argv = ["generator.py", "--header", header, "--source", source, "--namespace", "ns"]
    try:
        with contextlib.redirect_stdout(io.StringIO()):
            mode = cfg.get("config_mode") or ("dict" if cfg.get("config_as_dict") else "Config")
            if config_obj is not None:
                config = config_obj
            elif mode == "none":
                config = None
            else:
                kw = config_kw(cfg)
                config = kw if mode in ("dict", "dict_partial", "shared_dict") else cpp.Config(**kw)
            r = cpp.compile_ekf(b["model"], b["process_noise"], b["sensor_models"], b["sensor_noises"], b["calibration_map"], config=config)
    finally:
        sys.argv = argv
    if not r.success:
        raise RuntimeError("cpp.compile_ekf returned success=False")
    return header, source


def prepare(tier):
    pass


class DriverCrashed(Exception):
    def __init__(self, rc, lines):
        super().__init__(f"generated driver exit status {rc}")
        self.rc, self.lines = rc, lines


class CppLeg:
    def __init__(self, schedule):
        d, cfg = schedule["model"], schedule["config"]
        self.d = d
        self.dir = cppbuild.tmpdir("fsim_gen_")
        self.error = None
        self.stage = None
        # one caller-owned options dict handed to every generation of this process (a build script with an OPTIONS constant)
        shared = config_kw(cfg) if cfg.get("config_mode") == "shared_dict" else None
        for j, dd in enumerate(schedule.get("decoys", [])):
            try:
                generate_cpp(dd, dict(cfg, config_mode="Config"), os.path.join(self.dir, f"decoy{j}"), config_obj=shared if shared is not None else (dict(cfg["decoy_config"]) if cfg.get("decoy_config") else None))
            except Exception:  # noqa: BLE001
                pass  # a decoy only has to have been generated in this process
        try:
            header, source = generate_cpp(d, cfg, self.dir, config_obj=shared)
        except Exception as e:  # noqa: BLE001
            self.error, self.stage = f"{type(e).__name__}: {str(e)[:300]}", "generate"
            return
        drv = os.path.join(self.dir, "driver.cpp")
        with open(drv, "w") as f:
            f.write(driver_source(d))
        self.bin = os.path.join(self.dir, "driver")
        ok, err = cppbuild.compile_cpp([drv, source], self.bin, extra_inc=[os.path.join(self.dir, "generated")])
        if not ok:
            self.error, self.stage = err, "compile"
            # does the generated translation unit compile on its own (without the runtime and the driver)?
            ok2, err2 = cppbuild.compile_cpp(["-c", source], os.path.join(self.dir, "m.o"), extra_inc=[os.path.join(self.dir, "generated")])
            self.generated_alone_ok, self.generated_alone_err = ok2, err2

    def run(self, lines):
        cp = subprocess.run([self.bin], input="\n".join(lines) + "\n", capture_output=True, text=True, timeout=120)
        if cp.returncode != 0:
            raise DriverCrashed(cp.returncode, cp.stdout.splitlines())
        return cp.stdout.splitlines()

    def close(self):
        shutil.rmtree(self.dir, ignore_errors=True)


def _sv_line(S, x, P):
    return " ".join([fx(x[s]) for s in S] + [fx(v) for v in np.asarray(P).flatten()])


def _parse_sv(parts, n):
    vals = [float.fromhex(p) for p in parts]
    return np.array(vals[:n]).reshape(n, 1), np.array(vals[n : n + n * n]).reshape(n, n)


# --------------------------------------------------------------------------- execution
def execute(schedule) -> Result:
    res = Result()
    d, cfg, init = schedule["model"], schedule["config"], schedule["init"]
    combo = f"control={int(bool(d['control']))}&calibration={int(bool(d['calibration']))}"
    res.log.append("cfg " + json.dumps(cfg, sort_keys=True) + " model " + models.digest(d) + " " + combo)
    res.stats[f"probe:combo_{combo}"] += 1
    res.stats[f"probe:sensors={len(d['sensors'])}"] += 1
    res.stats[f"probe:cse_{'on' if cfg['cse'] else 'off'}"] += 1
    res.stats[f"probe:k={cfg['innovation_filtering']}"] += 1
    leg = CppLeg(schedule)
    try:
        if leg.error:
            if leg.stage == "generate":
                res.add("C14", "refused_valid", f"C14:cpp.compile_ekf:refused_valid:{leg.error.split(':')[0]}", 0, "a structurally valid definition is accepted by cpp.compile_ekf", leg.error, "cpp")
                res.add("C12", "generate", f"C12:cpp:generate:{combo}", 0, "the generator produces a filter", leg.error, "cpp")
            else:
                res.add("C12", "compile", f"C12:cpp:compile:{combo}", 0, f"generated filter + ManagedFilter<ExtendedKalmanFilter> ({combo}, {len(d['sensors'])} sensors) compiles: construction, tick with and without readings, compatibility static_assert", leg.error, "cpp")
                if not getattr(leg, "generated_alone_ok", True):
                    res.add("C07", "generated_code_does_not_compile", "C07:cpp:generated_code_does_not_compile", 0, "the generated C++ filter compiles (on its own, without runtime and driver) and computes what the Python filter computes", leg.generated_alone_err, "cpp")
            res.truncated = "cpp_unavailable"
            return res
        _lockstep(schedule, leg, res)
    finally:
        leg.close()
    return res


def _singular_S(H, S, P_in, pmax_run):
    """domain guard shared by single updates and updates inside ticks: S = H P H^T + Q is numerically singular, the small
    difference of large terms, or has COLLAPSED relative to the scale of the problem (an exact, zero-noise reading fused into a
    covariance that already knows it: P and S are both rounding residue and the gain is noise divided by noise)"""
    if not S.size:
        return False
    if not np.all(np.isfinite(S)) or float(np.linalg.cond(S)) > ekfw.GUARD_COND:
        return True
    h2 = float(np.linalg.norm(H, 2)) ** 2
    if P_in.size and h2 * float(np.linalg.norm(P_in, 2)) > 1e4 * float(np.max(np.abs(S))):
        return True
    try:
        lam = float(np.min(np.linalg.eigvalsh((S + S.T) / 2.0)))
    except Exception:  # noqa: BLE001
        return True
    return lam < 1e-9 * h2 * pmax_run


class _Track:
    """forwards to the real python filter; remembers the largest covariance/state magnitude seen along a tick"""

    def __init__(self, pe, ref=None, names=()):
        self.ref, self.names = ref, list(names)
        self.pe, self.config, self.control_size = pe, pe.config, pe.control_size
        self.pmax = self.xmax = 0.0
        self.pmax_run = 0.0
        self.calls = 0
        self.singular = False
        self.jacobians = []  # process Jacobians of the steps of the current tick, in call order

    def note(self, out):
        self.pmax_run = max(self.pmax_run, float(np.max(np.abs(out[1].data))) if out[1].data.size else 0.0)
        self.xmax = max(self.xmax, float(np.max(np.abs(out[0].data))) if out[0].data.size else 0.0)
        self.pmax = max(self.pmax, float(np.max(np.abs(out[1].data))) if out[1].data.size else 0.0)
        return out

    def make_reading(self, key, **kw):
        return self.pe.make_reading(key, **kw)

    def amplification(self):
        """max over j of ||G_k ... G_(j+1)||: how much a rounding error injected after step j has grown by the end of the tick
        (a trajectory that contracts on the way out and expands on the way back hides this from an end-to-end perturbation)"""
        if any(g is None for g in self.jacobians):
            return float("inf")
        worst, S_ = 1.0, None
        for G_ in reversed(self.jacobians):
            S_ = G_ if S_ is None else S_ @ G_
            if not np.all(np.isfinite(S_)):
                return float("inf")
            worst = max(worst, float(np.linalg.norm(S_, 2)))
        return worst

    def process_model(self, dt, state, covariance, control=None):
        self.calls += 1
        if self.ref is not None:
            try:
                x_ = {nm: float(state.data[j, 0]) for j, nm in enumerate(self.names)}
                u_ = None if control is None else {c: float(control.data[j, 0]) for j, c in enumerate(self.ref.U)}
                parts = self.ref.predict(dt, x_, np.array(covariance.data, dtype=float), u_)
                self.jacobians.append(None if parts is None else np.array(parts[2]["G"], dtype=float))
            except Exception:  # noqa: BLE001
                self.jacobians.append(None)
        self.note((state, covariance))
        return self.note(self.pe.process_model(dt, state, covariance, control) if control is not None else self.pe.process_model(dt, state, covariance))

    def sensor_model(self, state, covariance, *, sensor_key, sensor_reading):
        self.note((state, covariance))
        if self.ref is not None and not self.singular:
            try:
                # domain guard, the same as for single updates: a numerically singular S inside the tick (an exact, zero-noise
                # reading fused twice) or S as the small difference of large terms
                x_ = {nm: float(state.data[j, 0]) for j, nm in enumerate(self.names)}
                P_ = np.array(covariance.data, dtype=float)
                _hx, H_, S_ = self.ref.sensor(sensor_key, x_, P_)
                if _singular_S(H_, S_, P_, self.pmax_run):
                    self.singular = True
            except Exception:  # noqa: BLE001
                self.singular = True
        return self.note(self.pe.sensor_model(state, covariance, sensor_key=sensor_key, sensor_reading=sensor_reading))


def _lockstep(schedule, leg, res):
    from formak import python
    from formak.runtime import ManagedFilter, StampedReading

    d, cfg, init = schedule["model"], schedule["config"], schedule["init"]
    S, U, C = sorted(d["state"]), sorted(d["control"]), sorted(d["calibration"])
    n = len(S)
    sensors = sorted(d["sensors"])
    k = cfg["innovation_filtering"]
    b = models.build(d)
    with contextlib.redirect_stdout(io.StringIO()):
        pkw = {"common_subexpression_elimination": cfg["cse"], "innovation_filtering": k, "max_dt_sec": xf(cfg["max_dt_sec"])}
        for dd in schedule.get("decoys", []):
            try:
                bd = models.build(dd)
                python.compile_ekf(bd["model"], bd["process_noise"], bd["sensor_models"], bd["sensor_noises"], bd["calibration_map"], config=python.Config(common_subexpression_elimination=False))
            except Exception:  # noqa: BLE001
                pass
        pe = python.compile_ekf(b["model"], b["process_noise"], b["sensor_models"], b["sensor_noises"], b["calibration_map"], config=pkw if cfg.get("config_as_dict") else python.Config(**pkw))
    ref = ekfw.cached_ref(d)
    st = pe.State(**{s: xf(v) for s, v in init["state"].items()})
    cov = pe.Covariance.from_data(np.array([[xf(v) for v in row] for row in init["covariance"]], dtype=float))
    t0 = xf(init["time"])
    pmax_run = float(np.max(np.abs(cov.data))) if cov.data.size else 0.0  # the largest covariance entry seen so far in this run
    lines = []
    if C:
        lines.append("CAL " + " ".join(fx(xf(d["calibration_map"][c])) for c in C))
    expect = []  # what each command should print, from the python leg
    mf = None
    held = (st, cov)
    held_t = t0

    def xof(s_):
        return {nm: float(s_.data[i, 0]) for i, nm in enumerate(S)}

    try:
        with contextlib.redirect_stdout(io.StringIO()):
            for i, op in enumerate(schedule["ops"]):
                ctl = pe.Control(**{u: xf(v) for u, v in op["control"].items()}) if op.get("control") else (pe.Control() if U else None)
                cvals = " " + " ".join(fx(float(ctl.data[j, 0])) for j in range(len(U))) if U else ""
                if op["op"] == "predict":
                    dt = xf(op["dt"])
                    out = pe.process_model(dt, st, cov, ctl) if U else pe.process_model(dt, st, cov)
                    lines.append(f"PREDICT {fx(dt)} {_sv_line(S, xof(st), cov.data)}{cvals}")
                    try:
                        parts = ref.predict(dt, xof(st), np.array(cov.data, dtype=float), {u_: float(ctl.data[j, 0]) for j, u_ in enumerate(U)} if U else None)
                        gain = float(np.linalg.norm(parts[2]["G"], 2)) ** 2 if parts is not None and parts[2]["G"].size else 1.0
                    except Exception:  # noqa: BLE001
                        gain = 1.0
                    expect.append(("predict", i, out, {"P_in": np.array(cov.data, dtype=float), "gain": gain}))
                    st, cov = out
                    pmax_run = max(pmax_run, float(np.max(np.abs(cov.data))) if cov.data.size else 0.0)
                    mf = None
                elif op["op"] == "update":
                    key = op["sensor"]
                    rn = sorted(d["sensors"][key]["readings"])
                    rdg = pe.make_reading(key, **{r: xf(v) for r, v in op["values"].items()})
                    x_in, P_in = xof(st), np.array(cov.data)
                    out = pe.sensor_model(st, cov, sensor_key=key, sensor_reading=rdg)
                    u = ref.update(key, x_in, P_in, {r: xf(op["values"][r]) for r in rn}, k)
                    lines.append(f"UPDATE {sensors.index(key)} {_sv_line(S, x_in, P_in)} " + " ".join(fx(xf(op["values"][r])) for r in rn))
                    unchanged = out[0].data.tobytes() == st.data.tobytes() and out[1].data.tobytes() == cov.data.tobytes()
                    expect.append(("update", i, out, {"inn": np.array(pe.innovations[key]), "unchanged": unchanged, "u": u, "m": len(rn), "P_in": P_in, "z": [xf(op["values"][r]) for r in rn], "pmax_run": pmax_run, "pmax": float(np.max(np.abs(P_in))) if P_in.size else 0.0,
                                                      "xmax": (max(abs(v) for v in x_in.values()) + (float(np.max(np.abs(u["K"] @ u["inn"]))) if (u is not None and u["K"].size) else 0.0))}))
                    st, cov = out
                    mf = None
                    for f in op["faults"]:
                        res.stats["fault:" + f] += 1
                else:
                    if mf is None:
                        # both sides (re)start a managed filter from the python leg's current estimate
                        track = _Track(pe, ekfw.cached_ref(d), S)
                        mf = ManagedFilter(track, held_t, st, cov)
                        lines.append(f"NEWMF {fx(held_t)} {_sv_line(S, xof(st), cov.data)}")
                        expect.append(("newmf", i, None, None))
                    readings = [StampedReading(xf(r["t"]), r["sensor"], **{q: xf(v) for q, v in r["values"].items()}) for r in op["readings"]]
                    kw = {"control": ctl} if U else {}
                    before = (mf.current_time, mf.state, mf.covariance)
                    track.pmax_run = max(track.pmax_run, pmax_run)
                    out = mf.tick(xf(op["t_out"]), readings=readings if (readings or op["has_list"]) else None, **kw)
                    # sensitivity of this tick to a 1e-12 relative perturbation of the held state (chaotic models amplify the
                    # few-ulp differences between two correct implementations; the comparison allows 5% of this amplification)
                    try:
                        pst = pe.State.from_data(before[1].data * (1.0 + 1e-12) + 1e-13)
                        rd2 = [StampedReading(xf(r["t"]), r["sensor"], **{q: xf(v) for q, v in r["values"].items()}) for r in op["readings"]]
                        out2 = ManagedFilter(pe, before[0], pst, before[2]).tick(xf(op["t_out"]), readings=rd2 if (rd2 or op["has_list"]) else None, **kw)
                        sens = (float(np.max(np.abs(out2.state.data - out.state.data))), float(np.max(np.abs(out2.covariance.data - out.covariance.data))))
                        eps_abs = float(np.max(np.abs(pst.data - before[1].data)))
                    except Exception:  # noqa: BLE001
                        sens = (float("inf"), float("inf"))
                        eps_abs = 1.0
                    parts = [f"MFTICK {fx(xf(op['t_out']))}{cvals} {len(readings)} {int(op['has_list'])}"]
                    for r in op["readings"]:
                        rn = sorted(d["sensors"][r["sensor"]]["readings"])
                        parts.append(f"{fx(xf(r['t']))} {sensors.index(r['sensor'])} {r['rid']} " + " ".join(fx(xf(r["values"][q])) for q in rn))
                        for f in r["faults"]:
                            res.stats["fault:" + f.split(":")[0] + (":" + f.split(":")[1] if f.startswith("corrupt") else "")] += 1
                    for f in op["faults"]:
                        res.stats["fault:" + f] += 1
                    lines.append(" ".join(parts))
                    groups, cur_t = [], held_t
                    for r in op["readings"]:
                        groups.append((cur_t, xf(r["t"])))
                        cur_t = xf(r["t"])
                    groups.append((cur_t, xf(op["t_out"])))
                    expect.append(("tick", i, out, {"n": len(readings), "pmax": track.pmax, "xmax": track.xmax, "sens": sens + (track.calls, eps_abs), "singular_S": track.singular, "amp": track.amplification(), "groups": groups, "sensors": [(sensors.index(r["sensor"]), r["rid"]) for r in op["readings"]]}))
                    track.pmax = track.xmax = 0.0
                    track.calls = 0
                    track.singular = False
                    track.jacobians = []
                    pmax_run = max(pmax_run, track.pmax_run)
                    st, cov = mf.state, mf.covariance  # what the python runtime holds (direct ops continue from there)
                    if readings:
                        held_t = xf(op["readings"][-1]["t"])
    except AssertionError:
        res.truncated = "python_leg_refused"  # C09 territory, not compared here
    except Exception as e:  # noqa: BLE001
        res.truncated = f"python_leg_raised:{type(e).__name__}"
    for nop in schedule.get("nis_ops", []):
        m = nop["m"]
        lines.append(f"NIS {m} {fx(xf(nop['k']))} " + " ".join(fx(xf(v)) for v in nop["z"]) + " " + " ".join(fx(xf(v)) for row in nop["Sinv"] for v in row))
    try:
        out_lines = leg.run(lines)
    except DriverCrashed as e:
        combo = f"control={int(bool(d['control']))}&calibration={int(bool(d['calibration']))}"
        res.add("C12", "driver_crashed", f"C12:cpp:driver_crashed:{combo}", len(e.lines), "ticking the generated filter through the runtime returns (the same as the by-hand calls)", f"the driver process died with status {e.rc} after {len(e.lines)} output lines (the recording subclass, readings wrapped from temporaries and from lvalues)", "cpp")
        res.truncated = "driver_crashed"
        return
    res.log.extend(out_lines)
    _compare(schedule, expect, out_lines, res, n, S)


def _compare(schedule, expect, out_lines, res, n, S):
    d, cfg = schedule["model"], schedule["config"]
    k = cfg["innovation_filtering"]
    it = iter(out_lines)
    combo = f"control={int(bool(d['control']))}&calibration={int(bool(d['calibration']))}"

    def nxt(prefix):
        for ln in it:
            if ln.startswith(prefix + " ") or ln == prefix:
                return ln.split()[1:]
        return None

    carry = 0.0  # state difference already present at the end of the previous tick of the same persistent C++ managed filter
    diverged = False
    for kind, i, out, extra in expect:
        if kind == "newmf":
            carry = 0.0
            diverged = False
            continue
        if kind == "predict":
            r = nxt("R")
            if r is None:
                raise RuntimeError("driver output truncated")
            xs, Ps = _parse_sv(r, n)
            _cmp_sv(res, "C07", "predict", i, out, xs, Ps)
            _cov_invariant_cpp(res, i, Ps, extra["P_in"], extra["gain"], "predict")
            res.stats["predict"] += 1
        elif kind == "update":
            acc = nxt("A")
            inn = nxt("I")
            r = nxt("R")
            dline = nxt("D")
            named = nxt("V")
            if r is None or dline is None or acc is None or named is None:
                raise RuntimeError("driver output truncated")
            xs, Ps = _parse_sv(r, n)
            u = extra["u"]
            P_in = extra["P_in"]
            if u is not None and _singular_S(u["H"], u["S"], P_in, extra.get("pmax_run", 0.0)):
                # domain guard (same as the python world): S is numerically singular (e.g. an exact, zero-noise reading fused
                # twice) -- two correct implementations legitimately differ on this step (up to NaN on one side); both are
                # re-synchronised after it
                res.stats["update"] += 1
                res.stats["probe:update_not_compared_singular_S"] += 1
                continue
            # named accessors on the C++ side must address the same slots as the by-name API on the python side
            zin = extra["z"]
            if [float.fromhex(v) for v in acc] != zin:
                res.add("C07", "reading_accessor", "C07:cpp:reading_accessor", i, f"reading accessors return the named values {zin}", f"{[float.fromhex(v) for v in acc]}", "cpp")
            nv = [float.fromhex(v) for v in named]
            for j in range(n):
                if not (nv[3 * j] == Ps[j, j] and nv[3 * j + 1] == Ps[j, j] and nv[3 * j + 2] == xs[j, 0]):
                    res.add("C07", "named_accessor", "C07:cpp:named_accessor", i, f"covariance.{S[j]}() == data({j},{j}) and state.{S[j]}() == data({j},0)", f"{nv[3 * j: 3 * j + 3]} vs {Ps[j, j]}, {xs[j, 0]}", "cpp")
                    break
            cpp_unchanged = dline[0] == "1"
            u = extra["u"]
            res.stats["update"] += 1
            # stored innovation
            if inn and inn[0] != "none":
                ci = np.array([float.fromhex(v) for v in inn]).reshape(-1, 1)
                if reference.rel(ci, extra["inn"]) > TOL:
                    res.add("C07", "innovation", "C07:both:innovation", i, f"python innovation {extra['inn'].T.tolist()}", f"c++ {ci.T.tolist()}", "both")
            else:
                res.add("C07", "innovation_missing", "C07:cpp:innovation_missing", i, "c++ filter stores the innovation of the update", "innovations<Reading>() is empty", "cpp")
            # decision: compared only outside the C06 band
            if u is not None and k is not None:
                want, nis_x, thr_x = reference.decide(u["inn"][:, 0], u["S"], k, u["m"])
                observable = (float(np.max(np.abs(u["KHP"]))) if u["KHP"].size else 0.0) > 1e-12 or (float(np.max(np.abs(u["K"] @ u["inn"]))) if u["K"].size else 0.0) > 1e-12
                if want != "either" and observable:
                    if cpp_unchanged != (want == "discard"):
                        res.add("C06", "decision_cpp", f"C06:cpp:decision:generated_filter:m={u['m']}", i, f"{want}: NIS {nis_x!r} vs k*sqrt(2m)+m = {thr_x!r} (k={k}, m={u['m']})", "discarded" if cpp_unchanged else "kept", "cpp")
                    if cpp_unchanged != extra["unchanged"]:
                        res.add("C07", "decision", "C07:both:decision", i, f"python {'discards' if extra['unchanged'] else 'keeps'} (NIS {nis_x!r}, threshold {thr_x!r})", f"c++ {'discards' if cpp_unchanged else 'keeps'}", "both")
                    if want == "discard":
                        res.stats["probe:cpp_discarded"] += 1
                        # C06: a discarded reading's innovation is still recorded (generated C++ filter)
                        if cpp_unchanged and (not inn or inn[0] == "none" or reference.rel(np.array([float.fromhex(v) for v in inn]).reshape(-1, 1), u["inn"]) > TOL):
                            res.add("C06", "discard_innovation_cpp", "C06:cpp:innovation_record:discarded_reading", i, f"innovation of the discarded reading recorded: {u['inn'].T.tolist()}", f"{inn}", "cpp")
                if want == "either":
                    continue
            elif u is not None and k is None and cpp_unchanged and ((float(np.max(np.abs(u["KHP"]))) if u["KHP"].size else 0.0) > 1e-12):
                res.add("C06", "disabled_discards_cpp", "C06:cpp:disabled_discards", i, "with filtering disabled no reading is discarded", "c++ estimate unchanged", "cpp")
            _cmp_sv(res, "C07", "update", i, out, xs, Ps, extra["pmax"], extra["xmax"])
            if u is not None and u["K"].size:
                _cov_invariant_cpp(res, i, Ps, extra["P_in"], float(np.linalg.norm(np.eye(n) - u["K"] @ u["H"], 2)), "update")
        else:
            # the P/S lines the recording subclass printed during this tick come before its R line
            calls = []
            r = None
            for ln in it:
                if ln.startswith("P "):
                    calls.append(("P", float.fromhex(ln.split()[1])))
                elif ln.startswith("S "):
                    calls.append(("S", int(ln.split()[1]), int(ln.split()[2])))
                elif ln.startswith("R "):
                    r = ln.split()[1:]
                    break
            h = nxt("H")
            bh = nxt("B")
            if r is None or h is None:
                raise RuntimeError("driver output truncated")
            _check_steps(res, schedule, i, calls, extra, combo)
            xs, Ps = _parse_sv(r, n)
            res.stats["tick"] += 1
            res.stats[f"probe:tick_readings={min(extra['n'], 3)}"] += 1
            if extra.get("singular_S"):
                res.stats["probe:tick_not_compared_singular_S"] += 1
                diverged = True
            elif extra.get("amp", 1.0) * 1e-15 * (1.0 + extra["xmax"]) > 0.5 * TOL * (1.0 + (float(np.max(np.abs(xs))) if xs.size else 0.0)) or extra.get("amp", 1.0) ** 2 * 1e-15 * (1.0 + extra["pmax"]) > 5 * TOL * (1.0 + (float(np.max(np.abs(Ps))) if Ps.size else 0.0)):
                # domain guard (well-conditioned inputs): the product of the process Jacobians along this tick amplifies a rounding
                # error injected on the way by more than the tolerance leaves room for
                res.stats["probe:tick_not_compared_ill_conditioned"] += 1
                diverged = True
            elif diverged:
                # the two persistent managed filters run on from their OWN estimates, and those already differed by more than
                # a tenth of the tolerance after an earlier tick of this pair (excused there: chaotic amplification, singular S);
                # what the difference does in later ticks says nothing about either implementation. Direct operations and the
                # next managed-filter pair are re-synchronised and compared again.
                res.stats["probe:tick_not_compared_filters_diverged_earlier"] += 1
            else:
                _cmp_sv(res, "C07", "tick", i, (out.state, out.covariance), xs, Ps, extra["pmax"], extra["xmax"], extra["sens"] + (carry,))
            carry = float(np.max(np.abs(xs - out.state.data))) if xs.size else 0.0  # the two managed filters run on from their own estimates
            carry_P = float(np.max(np.abs(Ps - out.covariance.data))) if Ps.size else 0.0
            if not (carry <= 0.1 * TOL * (1.0 + (float(np.max(np.abs(xs))) if xs.size else 0.0)) and carry_P <= 0.1 * TOL * (1.0 + (float(np.max(np.abs(Ps))) if Ps.size else 0.0))):
                diverged = True
            if os.environ.get("FSIM_DEBUG"):
                print("DBG tick", i, "carry", carry, carry_P, "xmax", extra["xmax"], extra["pmax"], "sens", extra["sens"], "diverged", diverged, "singular", extra.get("singular_S"), file=sys.stderr)
            if h[0] != "1":
                xb, Pb = _parse_sv(bh, n)
                res.add("C12", "tick_vs_by_hand", f"C12:cpp:tick_vs_by_hand:{combo}", i, f"tick == by-hand replay of the logged calls, bit for bit: {xb.T.tolist()}", f"tick returned {xs.T.tolist()}", "cpp")
        res.ops += 1
        res.abstract.append(f"{kind}|{combo}|s={len(d['sensors'])}|{(extra or {}).get('n', '')}")
    # removeInnovation<m> helper (real innovation_filtering.h)
    for nop in schedule.get("nis_ops", []):
        dline = nxt("D")
        if dline is None:
            raise RuntimeError("driver output truncated (NIS)")
        m = nop["m"]
        z = np.array([xf(v) for v in nop["z"]])
        Sinv = np.array([[xf(v) for v in row] for row in nop["Sinv"]])
        from fractions import Fraction

        nis = sum(Fraction(float(z[a])) * Fraction(float(Sinv[a][b_])) * Fraction(float(z[b_])) for a in range(m) for b_ in range(m))
        thr, exact = reference.exact_threshold(xf(nop["k"]), m)
        import mpmath

        nv = mpmath.mpf(nis.numerator) / mpmath.mpf(nis.denominator)
        res.stats["probe:helper_calls"] += 1
        if exact is not None and nis == exact:
            want = 0
            res.stats["probe:helper_exact_tie"] += 1
        elif abs(nv - thr) <= 1e-9 * thr:
            continue
        else:
            want = 1 if nv > thr else 0
        import types

        from formak import python as _py

        fake = types.SimpleNamespace(config=types.SimpleNamespace(innovation_filtering=xf(nop["k"])))
        try:
            pydec = int(bool(_py.ExtendedKalmanFilter.remove_innovation(fake, z.reshape(m, 1), Sinv)))
        except Exception as e:  # noqa: BLE001
            pydec = f"raised {type(e).__name__}"
        if pydec != want:
            res.add("C06", "decision_python_helper", f"C06:py:decision:remove_innovation:m={m}", 0, f"{'discard' if want else 'keep'}: z^T S^-1 z = {float(nv)!r} vs k*sqrt(2m)+m = {float(thr)!r}", f"remove_innovation returned {pydec}", "py")
        if int(dline[0]) != want:
            res.add("C06", "decision_helper", f"C06:cpp:decision:removeInnovation:m={m}", 0, f"{'discard' if want else 'keep'}: z^T S^-1 z = {float(nv)!r} vs k*sqrt(2m)+m = {float(thr)!r}", f"removeInnovation<{m}> returned {dline[0]}", "cpp")


def _cov_invariant_cpp(res, i, P, P_in, gain, where):
    """C09 on the GENERATED C++ filter (same per-step, inherit-aware rule as for the Python filter): the covariance a step
    returns may carry on its input's asymmetry / negativity amplified by the step's gain, plus 1e-9 fresh rounding."""
    if not P.size or not np.all(np.isfinite(P)):
        return
    sc = max(1.0, float(np.max(np.abs(P))), float(np.max(np.abs(P_in))))
    a_in = float(np.max(np.abs(P_in - P_in.T)))
    n_in = max(0.0, -reference.min_eig(P_in))
    a = float(np.max(np.abs(P - P.T)))
    neg = max(0.0, -reference.min_eig(P))
    g = 8.0 * max(1.0, gain)
    if a > g * a_in + 1e-9 * sc:
        res.add("C09", "asymmetric", f"C09:cpp:asymmetric:{where}", i, f"generated C++ filter returns a covariance symmetric up to rounding (<= {g:.3g} x input asymmetry {a_in:.3g} + 1e-9 x {sc:.3g})", f"max|P-P^T| = {a:.3g}", "cpp")
    if neg > g * (n_in + a_in) + 1e-9 * sc:
        res.add("C09", "negative", f"C09:cpp:negative:{where}", i, f"generated C++ filter returns a PSD covariance up to rounding (-lambda_min <= {g:.3g} x input defect {n_in + a_in:.3g} + 1e-9 x {sc:.3g})", f"-lambda_min = {neg:.3g}", "cpp")


def _check_steps(res, schedule, i, calls, extra, combo):
    """C12 (3): the calls the runtime issued on the generated filter form the fold: sensor updates in list order, and
    between them prediction steps that lead from one time to the next (direction, bound, sum)."""
    from fractions import Fraction

    from fsim.worlds import rt_trace

    max_dt = Fraction(xf(schedule["config"]["max_dt_sec"]))
    segs, cur, sc = [], [], []
    for c in calls:
        if c[0] == "S":
            segs.append(cur)
            cur = []
            sc.append((c[1], c[2]))
        else:
            cur.append(c[1])
    segs.append(cur)
    if sc != extra["sensors"]:
        res.add("C12", "tick_sensor_calls", f"C12:cpp:tick_sensor_calls:{combo}", i, f"sensor updates (sensor index, reading id) in list order {extra['sensors']}", f"{sc}", "cpp")
        return
    tmp = Result()
    seen = [Fraction(a) for a, _b in extra["groups"]]
    for g, ((a, b), seg) in enumerate(zip(extra["groups"], segs)):
        rt_trace.check_group(tmp, "cpp", i, g, Fraction(a), Fraction(b), seg, max_dt, seen)
    for v in tmp.violations:
        res.add("C12", "tick_steps_" + v["clause"], f"C12:cpp:tick_steps:{v['clause']}:{combo}", i, v["expected"], v["observed"], "cpp")
        if v["property"] == "C10":
            # the configured maximum step reaches the C++ runtime through the generated Tag::max_dt_sec (cpp::Config)
            res.add("C10", v["clause"], f"C10:cpp_generated:{v['clause']}", i, v["expected"] + f" (configured max_dt_sec={float(max_dt)!r}, generated filter under the C++ runtime)", v["observed"], "cpp")


def _cmp_sv(res, prop, kind, i, out, xs, Ps, pmax=0.0, xmax=0.0, sens=(0.0, 0.0, 1)):
    """rounding of P - K H P and x + K(z-h) is relative to the largest magnitude along the way (cancellation), not to the result;
    for multi-step ticks 5% of the measured response to a 1e-12 perturbation of the input is allowed on top (chaotic models)"""
    so, co = out
    if not (np.all(np.isfinite(xs)) and np.all(np.isfinite(Ps))) and (sens[0] == float("inf")):
        return
    scale_x = 1.0 + max(float(np.max(np.abs(so.data))) if so.data.size else 0.0, xmax)
    scale_P = 1.0 + max(float(np.max(np.abs(co.data))) if co.data.size else 0.0, pmax)
    # every one of the n steps of a tick injects a few ulp (~4e-16 relative) that then grows like the measured response to the
    # 1e-12 perturbation: two correct implementations may differ by about n * 4e-4 * sens. Slack = max(0.05, 1e-3 n) * sens;
    # when that slack alone would eat half the tolerance the tick is ill-conditioned for this comparison.
    n_calls = sens[2] if len(sens) > 2 else 1
    slack = max(0.05, 1e-3 * n_calls)
    # consecutive ticks run on persistent managed filters (not re-seeded): a difference d already present at the start of this
    # tick is amplified like the perturbation was: d * sens / eps
    if len(sens) > 4 and sens[4] > 0 and sens[3] > 0:
        slack += 2.0 * sens[4] / sens[3]
    if slack * sens[0] > 0.5 * TOL * scale_x or slack * sens[1] > 5 * TOL * scale_P or scale_x > 1e4 or scale_P > 1e6:
        # domain guard (well-conditioned inputs): this tick amplifies a 1e-12 perturbation more than a thousandfold, or left
        # the bounded domain; two correct implementations legitimately diverge here. Not compared, counted.
        res.stats["probe:tick_not_compared_ill_conditioned"] += 1
        return
    dx = max(0.0, float(np.max(np.abs(xs - so.data))) - slack * sens[0]) if so.data.size else 0.0
    dP = max(0.0, float(np.max(np.abs(Ps - co.data))) - slack * sens[1]) if co.data.size else 0.0
    if sens[0] > 1e-9 or sens[1] > 1e-9:
        res.stats["probe:chaotic_tick_slack_used"] += 1
    ex = dx / (1.0 + max(float(np.max(np.abs(so.data))), xmax)) if so.data.size else 0.0
    eP = dP / (1.0 + max(float(np.max(np.abs(co.data))), pmax)) if co.data.size else 0.0
    res.stats["worst_x_e-15"] = max(res.stats.get("worst_x_e-15", 0), int(ex * 1e15))
    res.stats["worst_P_e-15"] = max(res.stats.get("worst_P_e-15", 0), int(eP * 1e15))
    if ex > TOL:
        res.add(prop, f"{kind}_state", f"{prop}:both:{kind}_state", i, f"python state {so.data.T.tolist()}", f"c++ {xs.T.tolist()} (rel {ex:.3g})", "both")
    if eP > TOL * 10:
        res.add(prop, f"{kind}_covariance", f"{prop}:both:{kind}_covariance", i, f"python covariance {co.data.tolist()}", f"c++ {Ps.tolist()} (rel {eP:.3g})", "both")


def simplify(schedule):
    if schedule.get("nis_ops"):
        s = json.loads(json.dumps(schedule))
        s["nis_ops"] = []
        yield s
    yield from ekfw.simplify(schedule)
