"""W4 entry: the compile entry points on a simulated file system, under structural faults (C14).

For each drawn valid definition every single structural fault at every applicable position (plus sampled pairs) is
injected; ui.Model, python.compile, python.compile_ekf, cpp.compile, cpp.compile_ekf must refuse exactly the
definitions the reference validator (written from the property text) calls invalid, and write nothing when they refuse.
"""
from __future__ import annotations

import builtins
import contextlib
import io
import json
import os
import sys

from sympy import Symbol

from fsim import models
from fsim.core import Result, fx, xf

NEW = "zz_new"


# --------------------------------------------------------------------------- fault catalogue
def enumerate_faults(d):
    out = []
    S, U, C = d["state"], d["control"], d["calibration"]
    for s in S:
        out.append({"kind": "overlap_state_control", "at": s})
        out.append({"kind": "overlap_state_calibration", "at": s})
        out.append({"kind": "update_missing", "at": s})
        out.append({"kind": "update_key_swapped", "at": s})
    out.append({"kind": "update_extra", "at": NEW})
    for other in (U[:1] + C[:1]):
        out.append({"kind": "update_extra_declared", "at": other})  # an update expression for a control / calibration symbol
    for u in U:
        out.append({"kind": "overlap_control_calibration", "at": u})
        out.append({"kind": "pnoise_missing", "at": u})
        out.append({"kind": "pnoise_negative", "at": u})
        out.append({"kind": "pnoise_foreign_replace", "at": u, "with": S[0]})
        out.append({"kind": "pnoise_foreign_replace", "at": u, "with": NEW})
        if C:
            out.append({"kind": "pnoise_foreign_replace", "at": u, "with": C[0]})
    out.append({"kind": "pnoise_foreign_add", "at": S[0]})
    out.append({"kind": "pnoise_foreign_add", "at": NEW})
    if C:
        out.append({"kind": "pnoise_foreign_add", "at": C[0]})
    for c in C:
        out.append({"kind": "cal_missing", "at": c})
        out.append({"kind": "cal_renamed", "at": c})
    out.append({"kind": "cal_extra", "at": NEW})
    for key, sd in d["sensors"].items():
        out.append({"kind": "snoise_sensor_missing", "at": key})
        out.append({"kind": "snoise_reading_extra", "at": key})
        for r in sd["readings"]:
            out.append({"kind": "sensor_uses_undeclared", "at": [key, r]})
            out.append({"kind": "sensor_uses_two_undeclared", "at": [key, r]})
            for u in U:
                out.append({"kind": "sensor_uses_control", "at": [key, r], "with": u})
            out.append({"kind": "snoise_reading_missing", "at": [key, r]})
            out.append({"kind": "snoise_reading_renamed", "at": [key, r]})
            if len(r) > 2:
                out.append({"kind": "snoise_reading_truncated", "at": [key, r]})  # a key that is a proper prefix of the reading's name
    out.append({"kind": "snoise_sensor_extra", "at": "extra9"})
    return out


def position_class(f):
    at = f["at"]
    return f["kind"] + ("|" + str(f.get("with")) if "with" in f and f["with"] in (NEW,) else "") + ("|multi" if isinstance(at, list) else "")


def apply_fault(d, f):
    """Mutates the (JSON) definition in place. sensor noise lives in d['sensors'][k]['noise']; extra sensor noise in d['extra_sensor_noise']."""
    k, at = f["kind"], f["at"]
    if k == "overlap_state_control":
        if at in d["state"] and at not in d["control"]:
            d["control"].append(at)
    elif k == "overlap_state_calibration":
        if at in d["state"] and at not in d["calibration"]:
            d["calibration"].append(at)
            d["calibration_map"].setdefault(at, fx(0.5))
    elif k == "overlap_control_calibration":
        if at in d["control"] and at not in d["calibration"]:
            d["calibration"].append(at)
            d["calibration_map"].setdefault(at, fx(0.5))
    elif k == "update_missing":
        d["state_model"].pop(at, None)
    elif k == "update_extra":
        d["state_model"][at] = "Symbol('%s')" % d["state"][0]
    elif k == "update_extra_declared":
        d["state_model"][at] = "Symbol('%s')" % at
    elif k == "update_key_swapped":
        if at in d["state_model"]:
            d["state_model"] = {(NEW + "_k" if key == at else key): v for key, v in d["state_model"].items()}
    elif k == "cal_missing":
        d["calibration_map"].pop(at, None)
    elif k == "cal_extra":
        d["calibration_map"][at] = fx(0.25)
    elif k == "cal_renamed":
        if at in d["calibration_map"]:
            d["calibration_map"] = {(NEW + "_c" if key == at else key): v for key, v in d["calibration_map"].items()}
    elif k == "pnoise_missing":
        d["process_noise"].pop(at, None)
    elif k == "pnoise_negative":
        if at in d["process_noise"]:
            d["process_noise"][at] = fx(-abs(xf(d["process_noise"][at])))
    elif k == "pnoise_foreign_add":
        d["process_noise"][at] = fx(0.5)
    elif k == "pnoise_foreign_replace":
        if at in d["process_noise"]:
            d["process_noise"] = {(f["with"] if key == at else key): v for key, v in d["process_noise"].items()}
    elif k == "sensor_uses_control":
        key, r = at
        if key in d["sensors"] and r in d["sensors"][key]["readings"]:
            d["sensors"][key]["readings"][r] = "Add(%s, Symbol('%s'))" % (d["sensors"][key]["readings"][r], f["with"])
    elif k == "sensor_uses_undeclared":
        key, r = at
        if key in d["sensors"] and r in d["sensors"][key]["readings"]:
            d["sensors"][key]["readings"][r] = "Add(%s, Symbol('%s'))" % (d["sensors"][key]["readings"][r], NEW + "_u")
    elif k == "sensor_uses_two_undeclared":
        key, r = at
        if key in d["sensors"] and r in d["sensors"][key]["readings"]:
            other = d["control"][0] if d["control"] else NEW + "_v"
            d["sensors"][key]["readings"][r] = "Add(%s, Symbol('%s'), Symbol('%s'))" % (d["sensors"][key]["readings"][r], NEW + "_u", other)
    elif k == "snoise_sensor_missing":
        if at in d["sensors"]:
            d["sensors"][at]["noise"] = None
    elif k == "snoise_sensor_extra":
        d.setdefault("extra_sensor_noise", {})[at] = {"r0": fx(1.0)}
    elif k == "snoise_reading_missing":
        key, r = at
        if key in d["sensors"] and d["sensors"][key]["noise"] is not None:
            d["sensors"][key]["noise"].pop(r, None)
    elif k == "snoise_reading_extra":
        if at in d["sensors"] and d["sensors"][at]["noise"] is not None:
            d["sensors"][at]["noise"][NEW + "_r"] = fx(1.0)
    elif k == "snoise_reading_truncated":
        key, r = at
        if key in d["sensors"] and d["sensors"][key]["noise"] is not None and r in d["sensors"][key]["noise"] and r[:-1] not in d["sensors"][key]["noise"]:
            d["sensors"][key]["noise"] = {(r[:-1] if q == r else q): v for q, v in d["sensors"][key]["noise"].items()}
    elif k == "snoise_reading_renamed":
        key, r = at
        if key in d["sensors"] and d["sensors"][key]["noise"] is not None and r in d["sensors"][key]["noise"]:
            d["sensors"][key]["noise"] = {(NEW + "_n" if q == r else q): v for q, v in d["sensors"][key]["noise"].items()}
    else:
        raise KeyError(k)


# --------------------------------------------------------------------------- reference validator (from the property text)
def validate(d):
    """-> dict(model=bool, calibration=bool, ekf=bool, reasons=[...]) for the (possibly mutated) definition."""
    reasons = []
    S, U, C = set(d["state"]), set(d["control"]), set(d["calibration"])
    if S & U or S & C or U & C:
        reasons.append("overlap")
    if set(d["state_model"]) != S:
        reasons.append("update_coverage")
    model_ok = not reasons
    cal_ok = set(d["calibration_map"]) == C
    if not cal_ok:
        reasons.append("calibration_map")
    ekf_ok = True
    pn = d["process_noise"]
    if set(pn) != U or any(xf(v) < 0 for v in pn.values()):
        ekf_ok = False
        reasons.append("process_noise")
    allowed = S | C
    noise_keys = set(d.get("extra_sensor_noise", {}))
    for key, sd in d["sensors"].items():
        for r, e in sd["readings"].items():
            free = {str(x) for x in models.parse(e).free_symbols}
            if not free <= allowed:
                ekf_ok = False
                reasons.append("sensor_symbols")
        if sd["noise"] is None:
            ekf_ok = False
            reasons.append("sensor_noise")
        else:
            noise_keys.add(key)
            if set(sd["noise"]) != set(sd["readings"]):
                ekf_ok = False
                reasons.append("sensor_noise")
    if noise_keys != set(d["sensors"]):
        ekf_ok = False
        reasons.append("sensor_noise")
    return {"model": model_ok, "calibration": model_ok and cal_ok, "ekf": model_ok and cal_ok and ekf_ok, "reasons": sorted(set(reasons))}


# --------------------------------------------------------------------------- simulated file system
class FakeFS:
    """The entry points' file system: a private scratch directory per call plus a recording shim on formak.cpp.open.
    What was written is what exists in the directory afterwards (however the code opened it) or what the shim saw."""

    def __init__(self):
        import tempfile

        self.dir = tempfile.mkdtemp(prefix="fsim_fs_", dir=os.environ.get("FSIM_TMP") or None)
        os.makedirs(os.path.join(self.dir, "generated", "ns"))
        self.header = os.path.join(self.dir, "generated", "ns", "m.h")
        self.source = os.path.join(self.dir, "generated", "ns", "m.cpp")
        self.opens = []

    def open(self, path, mode="r", *a, **k):
        self.opens.append((str(path), mode))
        return builtins.open(path, mode, *a, **k)

    @property
    def files(self):
        out = {}
        for root, _d, names in os.walk(self.dir):
            for n in names:
                with builtins.open(os.path.join(root, n), errors="replace") as f:
                    out[os.path.join(root, n)] = f.read()
        return out

    def wrote(self):
        return sorted(set([p for p, mode in self.opens if "w" in mode or "a" in mode or "+" in mode]) | set(self.files))

    def close(self):
        import shutil

        shutil.rmtree(self.dir, ignore_errors=True)


# --------------------------------------------------------------------------- generation
def generate(rng, prop, tier):
    if rng.random() < 0.15:
        d = models.curated(rng.choice(["cv", "rect", "mass_zva", "managed", "landmark", "landmark"]))
        d["containers"] = {k: rng.choice(["set", "list", "tuple", "frozenset"]) for k in d["containers"]}
    else:
        d = models.draw(rng, symbol_keys=False)
    singles = enumerate_faults(d)
    ops = [{"op": "case", "faults": []}]
    ops += [{"op": "case", "faults": [f]} for f in singles]
    n_pairs = 12 if tier == "quick" else 60
    for _ in range(n_pairs):
        ops.append({"op": "case", "faults": [rng.choice(singles), rng.choice(singles)]})
    # cancelling pairs (the result is valid again): the validator is evaluated on the mutated definition
    if d["control"]:
        u = d["control"][0]
        ops.append({"op": "case", "faults": [{"kind": "pnoise_missing", "at": u}, {"kind": "pnoise_foreign_add", "at": u}]})
    cfg = {"cse": rng.random() < 0.5, "python_config_as_dict": rng.random() < 0.3,
           # history before the cases: the one ui.Model object of the valid definition (compiled first, case 0) is handed to the
           # entry points again whenever a fault leaves the model part untouched (a user editing sensors/noise of a model)
           "reuse_model_object": rng.random() < 0.5,
           # ... and something else happened in this process first: a fit that failed and was caught by the caller
           "prelude": rng.choice([None, None, "failed_fit", "ok_fit"])}
    return {"config": cfg, "model": d, "ops": ops, "faults": [p_ for p_ in [cfg["prelude"]] if p_] + (["model_object_reused"] if cfg["reuse_model_object"] else [])}


# --------------------------------------------------------------------------- execution
def _prelude_fit(base, kind):
    """a fit of the valid definition through the scikit-learn adapter that fails (the caller catches the library's
    MinimizationFailure) or succeeds, before any case: whatever it leaves behind in the process must not switch checks off"""
    import numpy as np

    from fsim.worlds.estimator import MinimizeSeam

    try:
        from formak import python

        b = models.build(base)
        if not b["sensor_models"]:
            return "skipped_no_sensor"
        est = python.SklearnEKFAdapter.Create(b["model"], b["process_noise"], b["sensor_models"], b["sensor_noises"], b["calibration_map"], config=python.Config(common_subexpression_elimination=False))
        width = len(base["control"]) + sum(len(sd["readings"]) for sd in base["sensors"].values())
        X = np.array([[0.1 * ((3 * i + 7 * j) % 11) - 0.5 for j in range(width)] for i in range(4)], dtype=float)
        had = hasattr(python, "minimize")
        seam = MinimizeSeam(getattr(python, "minimize", None))
        seam.mode = "fail_after:1" if kind == "failed_fit" else "early_stop:1"
        if had:
            python.minimize = seam
        try:
            with contextlib.redirect_stdout(io.StringIO()), contextlib.redirect_stderr(io.StringIO()):
                est.fit(X)
            return "fit_returned"
        except Exception as e:  # noqa: BLE001
            return "fit_raised_" + type(e).__name__
        finally:
            if had:
                python.minimize = seam.real
    except Exception as e:  # noqa: BLE001 - the prelude is history, not the subject
        return "prelude_error_" + type(e).__name__


def _objects(d):
    """Build python objects of the (possibly invalid) definition WITHOUT validating anything."""
    state = models.container(d["containers"]["state"], [Symbol(n) for n in d["state"]])
    control = models.container(d["containers"]["control"], [Symbol(n) for n in d["control"]])
    calibration = models.container(d["containers"]["calibration"], [Symbol(n) for n in d["calibration"]])
    state_model = {Symbol(k): models.parse(v) for k, v in d["state_model"].items()}
    process_noise = {Symbol(k): xf(v) for k, v in d["process_noise"].items()}
    sensor_models = {key: {r: models.parse(e) for r, e in sd["readings"].items()} for key, sd in d["sensors"].items()}
    sensor_noises = {key: {r: xf(n) for r, n in sd["noise"].items()} for key, sd in d["sensors"].items() if sd["noise"] is not None}
    for key, nd in d.get("extra_sensor_noise", {}).items():
        sensor_noises[key] = {r: xf(n) for r, n in nd.items()}
    calibration_map = {Symbol(k): xf(v) for k, v in d["calibration_map"].items()}
    return state, control, calibration, state_model, process_noise, sensor_models, sensor_noises, calibration_map


def _call(fn):
    """-> (outcome, detail): 'ok' | 'raised' | 'exit'"""
    try:
        with contextlib.redirect_stdout(io.StringIO()), contextlib.redirect_stderr(io.StringIO()):
            r = fn()
        return "ok", r
    except SystemExit as e:
        return "exit", f"SystemExit({e.code})"
    except Exception as e:  # noqa: BLE001
        return "raised", f"{type(e).__name__}: {str(e)[:120]}"


def execute(schedule) -> Result:
    from formak import cpp, python, ui

    res = Result()
    cfg = schedule["config"]
    base = schedule["model"]
    res.log.append("model " + models.digest(base))
    if cfg.get("prelude"):
        res.stats["fault:prelude_" + cfg["prelude"]] += 1
        res.stats["probe:prelude_" + _prelude_fit(base, cfg["prelude"])] += 1
    model_part = lambda d_: json.dumps([d_[k_] for k_ in ("state", "control", "calibration", "state_model", "containers", "dt")])  # noqa: E731
    valid_model = None
    for ci, op in enumerate(schedule["ops"]):
        d = json.loads(json.dumps(base))
        for f in op["faults"]:
            apply_fault(d, f)
            res.stats["fault:" + f["kind"]] += 1
        v = validate(d)
        tag = "+".join(sorted(f["kind"] for f in op["faults"])) or "fault_free"
        if len(op["faults"]) == 2:
            res.stats["probe:pair_cases"] += 1
            if v["ekf"]:
                res.stats["probe:cancelling_pair_valid"] += 1
        state, control, calibration, state_model, pn, sm, sn, cm = _objects(d)
        outcome, model = _call(lambda: ui.Model(dt=Symbol("dt"), state=state, control=control, state_model=state_model, calibration=calibration))
        res.ops += 1
        res.log.append(f"{ci} {tag} ui.Model {outcome}")
        res.abstract.append(f"ui.Model|{tag if len(op['faults']) < 2 else 'pair'}|{outcome}")
        if outcome != "ok":
            if v["model"]:
                res.add("C14", "refused_valid", f"C14:ui.Model:refused_valid:{tag}", ci, "a structurally valid definition is accepted", model, "py")
            continue
        if not v["model"]:
            res.stats["probe:invalid_model_reached_compile"] += 1
        if cfg.get("reuse_model_object"):
            if not op["faults"]:
                valid_model = model
            elif valid_model is not None and model_part(d) == model_part(base):
                model = valid_model  # the very object that was compiled successfully before
                res.stats["fault:model_object_reused"] += 1
        pcfg = {"common_subexpression_elimination": cfg["cse"]} if cfg["python_config_as_dict"] else python.Config(common_subexpression_elimination=cfg["cse"])
        ccfg = cpp.Config(common_subexpression_elimination=cfg["cse"])
        entries = [
            ("python.compile", "calibration", lambda: python.compile(model, cm, config=pcfg)),
            ("python.compile_ekf", "ekf", lambda: python.compile_ekf(model, pn, sm, sn, cm, config=pcfg)),
            ("cpp.compile", "calibration", lambda: cpp.compile(model, cm, config=ccfg)),
            ("cpp.compile_ekf", "ekf", lambda: cpp.compile_ekf(model, pn, sm, sn, cm, config=ccfg)),
        ]
        for name, scope, fn in entries:
            fs = FakeFS()
            argv = sys.argv
            sys.argv = ["generator.py", "--header", fs.header, "--source", fs.source, "--namespace", "ns"]
            cpp.open = fs.open  # seam: 'open' is resolved through the module's globals before builtins
            try:
                outcome, detail = _call(fn)
            finally:
                sys.argv = argv
                del cpp.open
            res.ops += 1
            valid = v[scope]
            wrote = [os.path.relpath(p_, fs.dir) for p_ in fs.wrote()]
            files = fs.files
            fs.close()
            res.log.append(f"{ci} {tag} {name} {outcome} wrote={len(wrote)}")
            res.abstract.append(f"{name}|{tag if len(op['faults']) < 2 else 'pair'}|{outcome}")
            if valid:
                if outcome != "ok":
                    res.add("C14", "refused_valid", f"C14:{name}:refused_valid:{tag}", ci, "a structurally valid definition is accepted", detail, "py")
                elif name.startswith("cpp.") and (not getattr(detail, "success", False) or len(files) != 2 or not all(files.values())):
                    res.add("C14", "valid_not_written", f"C14:{name}:valid_not_written", ci, "header and source written for a valid definition", f"success={getattr(detail, 'success', None)} files={sorted(os.path.basename(f_) for f_ in files)}", "py")
            else:
                if outcome == "ok" or outcome == "exit":
                    res.add("C14", "accepted_invalid", f"C14:{name}:accepted:{tag}", ci, f"refused with an error ({', '.join(v['reasons'])})", f"{'returned normally' if outcome == 'ok' else detail}; files opened for writing: {wrote}", "py")
                elif wrote:
                    res.add("C14", "wrote_before_refusing", f"C14:{name}:wrote_before_refusing:{tag}", ci, "nothing written when the definition is refused", f"opened {wrote} then raised {detail}", "py")
    return res


def simplify(schedule):
    # single-fault form of a failing pair
    for i, op in enumerate(schedule["ops"]):
        if len(op["faults"]) == 2:
            for keep in (0, 1):
                s = json.loads(json.dumps(schedule))
                s["ops"][i]["faults"] = [op["faults"][keep]]
                yield s
    for key in list(schedule["model"]["sensors"]):
        s = json.loads(json.dumps(schedule))
        del s["model"]["sensors"][key]
        s["ops"] = [o for o in s["ops"] if not any((f["at"] == key or (isinstance(f["at"], list) and f["at"][0] == key)) for f in o["faults"])]
        if s["ops"]:
            yield s
