"""W2 ekf / rt_ekf: histories on the real compiled Python ExtendedKalmanFilter (direct calls, or through the real
ManagedFilter), checked call by call against the name-keyed reference EKF (re-seeded from the SUT's actual inputs).

Decides C04, C05, C06 (Python clauses), C09 and the value level of C11.
"""
from __future__ import annotations

import contextlib
import copy
import io
import json
import math

import numpy as np

from fsim import models, reference
from fsim.core import Result, fx, xf
from fsim.reference import RefEKF, rel
from fsim.worlds import rt_trace

TOL_X, TOL_P = 1e-9, 1e-8
MAXDT_MENU = [0.1, 0.05, 0.01, 0.25, 0.3, 1.0, 0.07, 1.0 / 30.0]
K_MENU = [None, 0.5, 1.0, 3.0, 5.0, 4, 7.0 / 3.0]  # incl. an int and a long mantissa
GUARD_X, GUARD_P, GUARD_COND = 1e4, 1e6, 1e5
MODE = "direct"


_REF_CACHE = {}


def cached_ref(d):
    """generation and execution of a run use the same definition: build the reference once per process"""
    key = models.digest(d)
    if key not in _REF_CACHE:
        if len(_REF_CACHE) > 8:
            _REF_CACHE.clear()
        _REF_CACHE[key] = RefEKF(d)
    return _REF_CACHE[key]


# --------------------------------------------------------------------------- generation
def profile(prop):
    p = {"p_update": 0.4, "p_dup": 0.1, "p_corrupt": 0.15, "steps": (15, 60), "p_curated": 0.25, "p_singular_start": 0.3, "k_menu": K_MENU}
    if prop == "C04":
        p.update(p_update=0.25, p_dup=0.25)
    elif prop == "C05":
        p.update(p_update=0.6, p_corrupt=0.1)
    elif prop == "C06":
        p.update(p_update=0.7, p_corrupt=0.5, p_curated=0.4, k_menu=[None, 0.5, 1.0, 3.0, 5.0, 1.0, 5.0, 4, 7.0 / 3.0, 1])
    elif prop == "C09":
        p.update(steps=(50, 300), p_curated=0.5, p_singular_start=0.5, p_update=0.35)
    return p


def draw_init(rng, d, p):
    S = sorted(d["state"])
    n = len(S)
    x = {s: rng.uniform(-2, 2) for s in S}
    r = rng.random()
    tags = []
    if r < p["p_singular_start"] and n >= 1:
        rank = rng.randint(0, n - 1) if n > 1 else 0
        A = np.array([[rng.uniform(-1, 1) for _ in range(rank)] for _ in range(n)]).reshape(n, rank)
        P = A @ A.T
        tags.append("singular_start")
    elif r < 0.8:
        A = np.array([[rng.uniform(-1, 1) for _ in range(n)] for _ in range(n)])
        P = A @ A.T + 0.1 * np.eye(n)
    elif r < 0.9 or n < 2:
        P = np.eye(n)
        tags.append("identity_start")
    else:
        # equal variances, equal correlations: a repeated eigenvalue whose eigenspace is not axis aligned
        a, b = rng.choice([0.5, 1.0, 2.0]), rng.choice([0.25, -0.1, 0.5])
        P = a * np.eye(n) + b * np.ones((n, n))
        if float(np.linalg.eigvalsh(P)[0]) <= 0.05:
            P = a * np.eye(n) + 0.25 * np.ones((n, n))
        tags.append("equicorrelated_start")
    P = (P + P.T) / 2
    return x, P, tags


def _gen_reading(rng, ref, key, x, P, k, p, tags):
    """A literal reading near the reference prediction, possibly corrupted (fault)."""
    rn = ref.readings[key]
    hx, H, S = ref.sensor(key, x, P)
    sig = np.sqrt(np.maximum(np.diag(S), 1e-12))
    z = {r: float(hx[i, 0] + rng.gauss(0, 1) * sig[i] * 0.7) for i, r in enumerate(rn)}
    faults = []
    if rng.random() < p["p_corrupt"]:
        kind = rng.choice(["spike", "spike", "bitflip", "boundary", "boundary", "boundary"])
        if kind == "spike":
            which = rn if rng.random() < 0.3 else [rng.choice(rn)]
            for r in which:
                z[r] += rng.choice([-1, 1]) * rng.uniform(10, 1000) * sig[rn.index(r)]
            faults.append("corrupt:spike")
        elif kind == "bitflip":
            r = rng.choice(rn)
            import struct

            bits = struct.unpack("<Q", struct.pack("<d", z[r]))[0] ^ (1 << rng.randrange(40, 62))
            v = struct.unpack("<d", struct.pack("<Q", bits))[0]
            if math.isfinite(v) and abs(v) < 1e6:
                z[r] = v
                faults.append("corrupt:bitflip")
        elif k is not None:
            # boundary: place the NIS at thr*(1+delta) along a random direction
            m = len(rn)
            m_thr = rng.choice([m, m, m] + [len(v) for v in ref.readings.values()] + [m + 1])  # sometimes ANOTHER sensor's threshold
            thr = k * math.sqrt(2 * m_thr) + m_thr
            dvec = np.array([[rng.gauss(0, 1)] for _ in rn])
            if np.linalg.norm(dvec) > 0:
                q = float((dvec.T @ np.linalg.inv(S) @ dvec).item())
                delta = rng.choice([-1, 1]) * rng.choice([4e-9, 1e-8, 1e-7, 1e-5, 1e-3, 0.05])
                alpha = math.sqrt(thr * (1 + delta) / q)
                for i, r in enumerate(rn):
                    z[r] = float(hx[i, 0] + alpha * dvec[i, 0])
                faults.append("corrupt:boundary" if m_thr == m else "corrupt:boundary_other_size")
    return z, faults


def generate(rng, prop, tier, mode=None):
    mode = mode or MODE
    p = profile(prop)
    long = tier == "thorough"
    if rng.random() < p["p_curated"]:
        d = models.curated(rng.choice(models.CURATED))
        if rng.random() < 0.5:
            d["containers"] = {k: rng.choice(["set", "list", "tuple", "frozenset"]) for k in d["containers"]}
    else:
        d = models.draw(rng, min_sensors=1 if prop in ("C05", "C06") else 0, identifier_safe=False)
    cfg = {"cse": rng.random() < 0.4, "innovation_filtering": rng.choice(p["k_menu"]), "max_dt_sec": fx(rng.choice(MAXDT_MENU)), "mode": mode,
           "config_as_dict": rng.random() < 0.3,
           # the documented option; only on models known to pass the (symbolic) extra validation
           "extra_validation": d["name"] in ("cv", "direct2", "rect") and rng.random() < 0.5}
    if d["name"] == "direct2" and prop == "C06" and rng.random() < 0.6:
        return _gen_tie(rng, d, cfg)
    max_dt = xf(cfg["max_dt_sec"])
    k = cfg["innovation_filtering"]
    # swarm knob: overall magnitude of noises and covariance (the properties quantify over ALL positive noise assignments)
    scale = rng.choice([1.0, 1.0, 1.0, 1.0, 1e-9, 1e-6, 1e3]) if d["name"] != "direct2" else 1.0
    if scale != 1.0:
        d["process_noise"] = {k_: fx(xf(v) * scale) for k_, v in d["process_noise"].items()}
        for sd in d["sensors"].values():
            sd["noise"] = {k_: fx(xf(v) * scale) for k_, v in sd["noise"].items()}
        d["tags"] = sorted(set(d.get("tags", []) + [f"scale_{scale:g}"]))
    cfg["scale"] = scale
    # other filters are built in the same process, before and after the one under test: from the SAME ui.Model object with
    # another calibration / noise, and from another definition that uses the same sensor keys
    cfg["sibling_builds"] = rng.random() < 0.25
    ref = cached_ref(d)
    x, P, tags = draw_init(rng, d, p)
    P = P * scale
    init = {"time": fx(rng.choice([0.0, 10.0, -2.5, 1000.0])), "state": {s: fx(v) for s, v in x.items()}, "covariance": [[fx(v) for v in row] for row in P], "tags": tags}
    # unusual-but-legal containers for the initial estimate: integer / single-precision arrays handed to from_data
    r_dt = rng.random()
    if r_dt < 0.08:
        x = {s_: float(round(v)) for s_, v in x.items()}
        init["state"] = {s_: fx(v) for s_, v in x.items()}
        init["state_dtype"] = "int64"
        tags.append("state_dtype_int64")
    elif r_dt < 0.14:
        x = {s_: float(np.float32(v)) for s_, v in x.items()}
        init["state"] = {s_: fx(v) for s_, v in x.items()}
        init["state_dtype"] = "float32"
        tags.append("state_dtype_float32")
    r_dt = rng.random()
    if r_dt < 0.06 and scale == 1.0:
        P = np.diag([float(rng.randint(1, 3)) for _ in x])
        init["covariance"] = [[fx(v) for v in row] for row in P]
        init["cov_dtype"] = "int64"
        tags.append("cov_dtype_int64")
    elif r_dt < 0.12:
        P = np.array(np.float32(P), dtype=float)
        P = (P + P.T) / 2
        P = np.array(np.float32(P), dtype=float)
        init["covariance"] = [[fx(v) for v in row] for row in P]
        init["cov_dtype"] = "float32"
        tags.append("cov_dtype_float32")
    if mode == "direct" and rng.random() < 0.25:
        init["state2"] = {s_: fx(v + rng.uniform(-1, 1)) for s_, v in x.items()}
        tags.append("second_track")
    lo, hi = p["steps"]
    n_steps = rng.randint(lo, hi * (4 if long else 1))
    sensors = sorted(d["sensors"])
    ops = []
    try:
        _gen_ops(rng, mode, ops, n_steps, ref, x, P, k, p, tags, sensors, max_dt, init)
    except (GenStop, *reference.NUMERIC):
        pass
    return {"config": cfg, "model": d, "init": init, "ops": ops, "faults": tags + d.get("tags", [])}


class GenStop(Exception):
    pass


def _gen_ops(rng, mode, ops, n_steps, ref, x, P, k, p, tags, sensors, max_dt, init):
    if mode == "direct":
        # optional second track on the SAME filter object (legal: the filter keeps no estimate): it starts from the same
        # covariance at another state and mirrors every operation with its own readings (hidden caches keyed on stale data)
        two = init.get("state2") is not None
        xs = [x] + ([{s_: xf(v) for s_, v in init["state2"].items()}] if two else [])
        Ps = [P] + ([np.array(P)] if two else [])
        for _ in range(n_steps):
            if max(abs(v) for x_ in xs for v in x_.values()) > 1e3 or max(float(np.max(np.abs(P_))) for P_ in Ps) > 1e5:
                break
            if sensors and rng.random() < p["p_update"]:
                key = rng.choice(sensors)
                kind = rng.random()
                for t in range(len(xs)):
                    x_, P_ = xs[t], Ps[t]
                    if kind < 0.06:
                        ops.append({"op": "update_at_prediction", "sensor": key, "track": t, "faults": []})
                        z = {r: float(v) for r, v in zip(ref.readings[key], ref.sensor(key, x_, P_)[0][:, 0])}
                    elif kind < 0.10:
                        # a reading simulated with the filter's own sensor model at another state, handed over as is (aliasing fault)
                        other = {s_: x_[s_] + rng.uniform(-0.5, 0.5) for s_ in x_}
                        ops.append({"op": "update_from_model", "sensor": key, "track": t, "at_state": {s_: fx(v) for s_, v in other.items()}, "faults": ["reading_from_sensor_model"]})
                        z = {r: float(v) for r, v in zip(ref.readings[key], ref.sensor(key, other, P_)[0][:, 0])}
                    else:
                        z, faults = _gen_reading(rng, ref, key, x_, P_, k, p, tags)
                        ops.append({"op": "update", "sensor": key, "track": t, "values": {r: fx(v) for r, v in z.items()}, "faults": faults})
                    u = ref.update(key, x_, P_, z, k)
                    if u is None:
                        ops.pop()
                        raise GenStop()
                    if not (k is not None and u["nis"] > u["thr"]):
                        xs[t], Ps[t] = u["x_post"], u["P_post"]
            else:
                r = rng.random()
                dt = max_dt if r < 0.15 else -max_dt if r < 0.25 else rng.choice([-1, 1, 1]) * rng.uniform(1e-4, max_dt)
                if rng.random() < 0.1:
                    dt = rng.choice([-1, 1, 1]) * rng.uniform(1e-5, 1e-3)  # very short (but real) steps
                tiny = rng.random() < 0.05
                if tiny:
                    dt = rng.choice([0.0, 1e-10, -1e-10, 5e-10, -5e-10, 1e-12])
                ctl = {u: fx(rng.uniform(-2, 2)) for u in ref.U}
                for t in range(len(xs)):
                    faults = ["tiny_dt"] if tiny else []
                    if rng.random() < p["p_dup"]:
                        faults.append("duplicate_call")
                    if rng.random() < 0.06:
                        faults.append("same_objects_rewritten")
                    op = {"op": "predict", "dt": fx(dt), "track": t, "control": ctl if (ref.U or rng.random() < 0.5) else None, "faults": faults}
                    ops.append(op)
                    nxt = ref.predict(dt, xs[t], Ps[t], {u: xf(v) for u, v in ctl.items()})
                    if nxt is None or not all(math.isfinite(v) for v in nxt[0].values()):
                        ops.pop()
                        raise GenStop()
                    xs[t], Ps[t], _ = nxt
                if rng.random() < p["p_dup"] * 0.5 and len(ops) > 3:
                    ops.append({"op": "repeat", "of": rng.randrange(len(ops)), "faults": ["duplicate_call_deferred"]})
    else:
        t_held = xf(init["time"])
        t_now = t_held
        n_ticks = max(3, n_steps // 6)
        rid = 0
        for _ in range(n_ticks):
            if max(abs(v) for v in x.values()) > 1e3 or np.max(np.abs(P)) > 1e5:
                break
            nr = rng.choice([0, 1, 1, 2, 3]) if sensors else 0
            period = rng.choice([0.5, 1.0, 2.5, 6.0]) * max_dt
            t_now += period * rng.choice([1, 1, 1, 3])
            ctl = {u: fx(rng.uniform(-2, 2)) for u in ref.U}
            uf = {u: xf(v) for u, v in ctl.items()}
            readings, tfaults = [], []
            for _j in range(nr):
                key = rng.choice(sensors)
                r = rng.random()
                f = []
                if r < 0.2:
                    st = t_held - rng.uniform(0, 8) * max_dt
                    f.append("stale")
                elif r < 0.3:
                    st = t_now + rng.uniform(0, 5) * max_dt
                    f.append("future")
                elif r < 0.4:
                    st = t_held
                    f.append("burst")
                else:
                    st = t_now - rng.uniform(0, 1) * period
                    if st < t_held:
                        f.append("reorder")
                x, P = _ref_propagate(ref, x, P, t_held, st, max_dt, uf)
                t_held = st
                z, cf = _gen_reading(rng, ref, key, x, P, k, p, tags)
                u = ref.update(key, x, P, z, k)
                if u is None:
                    raise GenStop()
                if not (k is not None and u["nis"] > u["thr"]):
                    x, P = u["x_post"], u["P_post"]
                rid += 1
                readings.append({"t": fx(st), "sensor": key, "rid": rid, "values": {r_: fx(v) for r_, v in z.items()}, "faults": f + cf})
                if rng.random() < 0.08:
                    readings.append(dict(readings[-1], faults=[f"dup_of:{rid}"]))
                    u = ref.update(key, x, P, z, k)
                    if u is None:
                        raise GenStop()
                    if not (k is not None and u["nis"] > u["thr"]):
                        x, P = u["x_post"], u["P_post"]
            t_out = t_now
            if rng.random() < 0.1:
                t_out = t_held - rng.uniform(0, 5) * max_dt
                tfaults.append("clock_jump")
            elif rng.random() < 0.08:
                t_out = t_held
                tfaults.append("zero_tick")
            op = {"op": "tick", "t_out": fx(t_out), "control": ctl if ref.U else None, "readings": readings, "faults": tfaults}
            if ref.U and rng.random() < 0.04:
                op = {"op": "tick", "t_out": fx(t_out), "control": None, "readings": [], "faults": ["missing_control"]}
            ops.append(op)
            if rng.random() < 0.08 and not readings:
                ops.append(dict(json.loads(json.dumps(op)), faults=op["faults"] + ["dup_tick"]))


def _ref_propagate(ref, x, P, t_from, t_to, max_dt, u):
    delta = t_to - t_from
    if delta == 0:
        return x, P
    step = math.copysign(max_dt, delta)
    n = int(abs(delta) // max_dt)
    for dt in [step] * min(n, 400) + ([delta - step * n] if abs(delta - step * n) >= 1e-9 else []):
        nxt = ref.predict(dt, x, P, u)
        if nxt is None or not all(math.isfinite(v) for v in nxt[0].values()) or max(abs(v) for v in nxt[0].values()) > 1e3 or (nxt[1].size and np.max(np.abs(nxt[1])) > 1e5):
            raise GenStop()
        x, P, _ = nxt
    return x, P


def _gen_tie(rng, d, cfg):
    """Exactly representable NIS ties on the selector model: S = diag(1, 0.5), S^-1 = diag(1, 2) exactly."""
    k = rng.choice([0.5, 1.0, 3.0, 5.0])
    cfg = dict(cfg, innovation_filtering=k, mode="direct")
    inn = {0.5: (1.0, 1.0), 1.0: (2.0, 0.0), 3.0: (2.0, math.sqrt(2.0)), 5.0: (2.0, 2.0)}[k]
    # thr = 2k+2 ; nis = i0^2 + 2*i1^2 : k=.5 -> 3 = 1+2 ; k=1 -> 4 = 4+0 ; k=5 -> 12 = 4+8 ; k=3 -> 8 = 4+2*2 (sqrt2^2 is not exact: near-tie only)
    x = {"p": float(rng.randint(-4, 4)), "q": float(rng.randint(-4, 4)) / 2}
    P = [[0.5, 0.0], [0.0, 0.25]]
    init = {"time": fx(0.0), "state": {s: fx(v) for s, v in x.items()}, "covariance": [[fx(v) for v in row] for row in P], "tags": ["tie"]}
    side = rng.choice(["tie", "tie", "above", "below"]) if k != 3.0 else rng.choice(["above", "below"])
    i0, i1 = inn
    if side == "above":
        i0 = math.nextafter(i0, math.inf) if k != 3.0 else i0 * (1 + 1e-6)
    elif side == "below":
        i0 = math.nextafter(i0, -math.inf) if k != 3.0 else i0 * (1 - 1e-6)
    z = {"r0": x["p"] + i0, "r1": x["q"] + i1}
    ops = [{"op": "update", "sensor": "pq", "values": {r: fx(v) for r, v in z.items()}, "faults": [f"corrupt:boundary_{'exact_tie' if side == 'tie' else 'ulp_' + side}"]}]
    # follow with ordinary traffic so that 'discard changes nothing' is observable on later steps
    ops.append({"op": "predict", "dt": fx(0.05), "control": None, "faults": []})
    ops.append({"op": "update", "sensor": "ponly", "values": {"r0": fx(x["p"] + 0.1)}, "faults": []})
    return {"config": cfg, "model": d, "init": init, "ops": ops, "faults": ["tie"]}


# --------------------------------------------------------------------------- harness around the real filter
class Harness:
    def __init__(self, schedule, res: Result):
        from formak import python

        self.python = python
        self.res = res
        d = schedule["model"]
        cfg = schedule["config"]
        self.d, self.cfg = d, cfg
        self.k = cfg["innovation_filtering"]
        self.ref = cached_ref(d)
        self.S = self.ref.S
        self.compile_error = None
        self.handed_out = []  # (op index, (state bytes, cov bytes, state obj, cov obj)) of recent results
        self.worst = {"x": 0.0, "P": 0.0, "inn": 0.0, "S": 0.0, "asym": 0.0, "neg": 0.0}
        b = models.build(d)
        kw = {"common_subexpression_elimination": cfg["cse"], "innovation_filtering": self.k, "max_dt_sec": xf(cfg["max_dt_sec"]), "extra_validation": bool(cfg.get("extra_validation"))}
        config = kw if cfg.get("config_as_dict") else python.Config(**kw)
        self._build = (b, config)
        with contextlib.redirect_stdout(io.StringIO()):
            if cfg.get("sibling_builds"):
                self._sibling(python, b, d, "before")
            self.ekf = python.compile_ekf(b["model"], b["process_noise"], b["sensor_models"], b["sensor_noises"], b["calibration_map"], config=config)
            if cfg.get("sibling_builds"):
                self._sibling(python, b, d, "after")
                res.stats["fault:sibling_builds"] += 1
        self.step = 0

    def fresh_filter(self):
        """a filter object from the same definition and configuration that has never been called: compiled once per run, and
        every by-hand replay gets its own copy of that pristine object (arrays, dicts and caches it owns are copied; compiled
        functions are shared), so neither the ticks nor earlier replays can have left anything in it"""
        if getattr(self, "_pristine", None) is None:
            b, config = self._build
            with contextlib.redirect_stdout(io.StringIO()):
                self._pristine = self.python.compile_ekf(b["model"], b["process_noise"], b["sensor_models"], b["sensor_noises"], b["calibration_map"], config=config)
        try:
            return copy.deepcopy(self._pristine)
        except Exception:  # noqa: BLE001 - an object that cannot be copied: compile again
            b, config = self._build
            with contextlib.redirect_stdout(io.StringIO()):
                return self.python.compile_ekf(b["model"], b["process_noise"], b["sensor_models"], b["sensor_noises"], b["calibration_map"], config=config)

    def _sibling(self, python, b, d, when):
        """build (and keep alive) other filters: same ui.Model object with shifted calibration and noise; and a different
        definition that reuses this one's sensor keys. Failures of these builds are not this run's subject."""
        self.siblings = getattr(self, "siblings", [])
        cfgs = python.Config(common_subexpression_elimination=False, innovation_filtering=7.0 if when == "before" else None)
        try:
            cm = {k_: v + (0.37 if when == "before" else -0.61) for k_, v in b["calibration_map"].items()}
            pn = {k_: v * 3.0 for k_, v in b["process_noise"].items()}
            sn = {k_: {r: v * 0.5 for r, v in m.items()} for k_, m in b["sensor_noises"].items()}
            self.siblings.append(python.compile_ekf(b["model"], pn, b["sensor_models"], sn, cm, config=cfgs))
        except Exception:  # noqa: BLE001
            pass
        try:
            # the same expressions over the same symbols, grouped differently (a control or calibration symbol promoted to a
            # constant state): anything shared between filters and keyed on expressions / symbol sets must not leak across
            d2 = json.loads(json.dumps(d))
            mv = (sorted(d2["control"]) or sorted(d2["calibration"]) or [None])[0 if when == "before" else -1]
            if mv is not None:
                grp = "control" if mv in d2["control"] else "calibration"
                d2[grp] = [n_ for n_ in d2[grp] if n_ != mv]
                d2["state"] = d2["state"] + [mv]
                d2["state_model"][mv] = f"Symbol('{mv}')"
                d2["process_noise"].pop(mv, None)
                d2["calibration_map"].pop(mv, None)
                b2 = models.build(d2)
                self.siblings.append(python.compile_ekf(b2["model"], b2["process_noise"], b2["sensor_models"], b2["sensor_noises"], b2["calibration_map"], config=python.Config(common_subexpression_elimination=self._build[1]["common_subexpression_elimination"] if isinstance(self._build[1], dict) else self._build[1].common_subexpression_elimination, innovation_filtering=None)))
                self.res.stats["probe:sibling_regrouped"] += 1
        except Exception:  # noqa: BLE001
            pass
        try:
            import random as _r

            dd = models.draw(_r.Random(len(d["state"]) * 7 + (1 if when == "before" else 2)), max_states=2, max_controls=1, max_cal=1, max_sensors=len(d["sensors"]) or 1, min_sensors=len(d["sensors"]) or 1, symbol_keys=False)
            keys = list(d["sensors"])
            dd["sensors"] = {(keys[j] if j < len(keys) else k_): v for j, (k_, v) in enumerate(dd["sensors"].items())}
            bb = models.build(dd)
            self.siblings.append(python.compile_ekf(bb["model"], bb["process_noise"], bb["sensor_models"], bb["sensor_noises"], bb["calibration_map"], config=cfgs))
        except Exception:  # noqa: BLE001
            pass

    # ---- by-name conversion (layout = sorted names, the library's documented order)
    def state_obj(self, x):
        return self.ekf.State(**x)

    def cov_obj(self, P):
        return self.ekf.Covariance.from_data(np.array(P, dtype=float))

    def ctl_obj(self, u):
        return self.ekf.Control(**u) if u is not None else None

    def x_of(self, st):
        return {s: float(st.data[i, 0]) for i, s in enumerate(self.S)}

    def reading_obj(self, key, z):
        return self.ekf.make_reading(key, **z)

    # ---- one prediction call with all its oracles
    def predict(self, i, dt, st, cov, ctl, duplicate=False):
        res, ref = self.res, self.ref
        x_in, P_in = self.x_of(st), np.array(cov.data, dtype=float)
        snap = (st.data.tobytes(), cov.data.tobytes(), None if ctl is None else ctl.data.tobytes())
        u = None if ctl is None else {c: float(ctl.data[j, 0]) for j, c in enumerate(ref.U)}
        if max((abs(v) for v in x_in.values()), default=0) > GUARD_X or (P_in.size and np.max(np.abs(P_in)) > GUARD_P):
            res.truncated = "guard:magnitude"
            return None
        res.stats["predict"] += 1
        nxt = ref.predict(dt, x_in, P_in, u)
        if nxt is None:
            res.truncated = "guard:reference_numeric"
            return None
        xr, Pr, parts = nxt
        if not all(math.isfinite(v) for v in xr.values()):
            res.truncated = "guard:nonfinite_reference"
            return None
        exc = None
        try:
            with contextlib.redirect_stdout(io.StringIO()):
                out = self.ekf.process_model(dt, st, cov, ctl) if ctl is not None else self.ekf.process_model(dt, st, cov)
        except AssertionError as e:
            exc = e
        except Exception as e:  # noqa: BLE001
            res.add("C04", "raises", f"C04:py:raises:{type(e).__name__}", i, "prediction returns", f"{type(e).__name__}: {str(e)[:200]}")
            if _covariance_refusal(e) and all(reference.strictly_valid(M) for M in (P_in, parts["GPG"], parts["VMV"], Pr)):
                res.add("C09", "refused_valid", f"C09:py:refused_valid:predict:{type(e).__name__}", i, "a symmetric PSD (possibly singular) covariance is propagated", f"{type(e).__name__}: {str(e)[:160]}")
            res.truncated = "sut_exception"
            return None
        if exc is not None:
            valid = all(reference.strictly_valid(M) for M in (P_in, parts["GPG"], parts["VMV"], Pr))
            if valid:
                # both statements are broken: the prediction does not return its value (C04) and a valid covariance is refused (C09)
                res.add("C04", "raises_on_valid_covariance", "C04:py:raises_on_valid_covariance", i, f"prediction returns P' = {Pr.tolist()}", f"AssertionError: {str(exc)[:160]}")
                res.add("C09", "refused_valid", "C09:py:refused_valid:predict", i, "a symmetric PSD covariance (to 1e-12 relative) is propagated", f"AssertionError: {str(exc)[:160]}")
            else:
                res.stats["probe:refused_grey_zone"] += 1
            res.truncated = "sut_refused"
            return None
        so, co = out
        ex = rel([[so.data[j, 0]] for j in range(len(self.S))], [[xr[s]] for s in self.S])
        # covariance: scale-invariant (noise magnitudes range over 12 decades): relative to ||G||^2 ||P|| + ||V||^2 ||M||
        if P_in.size:
            p_nat = float(np.linalg.norm(parts["G"], 2)) ** 2 * float(np.linalg.norm(P_in, 2)) + (float(np.linalg.norm(parts["V"], 2)) ** 2 * float(np.linalg.norm(ref.M, 2)) if ref.U else 0.0)
            eP = (float(np.max(np.abs(np.asarray(co.data, dtype=float) - Pr))) / p_nat * 10.0) if (p_nat > 0 and co.data.shape == Pr.shape) else (0.0 if co.data.shape == Pr.shape and not np.any(co.data) else float("inf"))
        else:
            eP = 0.0
        self.worst["x"], self.worst["P"] = max(self.worst["x"], ex), max(self.worst["P"], eP)
        if ex > TOL_X:
            res.add("C04", "state_value", "C04:py:state_value", i, f"x' = f(x,u) by name: { {s: xr[s] for s in self.S} }", f"{self.x_of(so)} (rel err {ex:.3g}) dt={dt!r}")
        if eP > TOL_P:
            res.add("C04", "covariance_value", "C04:py:covariance_value", i, f"P' = G P G^T + V M V^T = {Pr.tolist()}", f"{co.data.tolist()} (rel err {eP:.3g}) dt={dt!r}")
        if (st.data.tobytes(), cov.data.tobytes(), None if ctl is None else ctl.data.tobytes()) != snap:
            res.add("C04", "input_mutated", "C04:py:input_mutated", i, "state, covariance and control inputs unmodified", "an input array changed during process_model")
        self.cov_invariant(i, co.data, P_in, "predict", float(np.linalg.norm(parts["G"], 2)) ** 2 if parts["G"].size else 1.0)
        if self.step % 16 == 0:
            sc = ref.spot_check(dt, x_in, u)
            if max(abs(sc[s] - xr[s]) for s in self.S) > 1e-9 * (1 + max(abs(v) for v in xr.values())):
                raise RuntimeError("reference self-check failed (lambdify vs evalf)")
        self.step += 1
        if duplicate:
            res.stats["fault:duplicate_call"] += 1
            with contextlib.redirect_stdout(io.StringIO()):
                out2 = self.ekf.process_model(dt, st, cov, ctl) if ctl is not None else self.ekf.process_model(dt, st, cov)
            if out2[0].data.tobytes() != so.data.tobytes() or out2[1].data.tobytes() != co.data.tobytes():
                res.add("C04", "repeatability", "C04:py:repeatability", i, "repeating the call gives the identical result", f"first {so.data.T.tolist()} second {out2[0].data.T.tolist()}")
        res.sim_time += abs(dt)
        if dt < 0:
            res.stats["probe:negative_dt"] += 1
        return so, co

    def cov_invariant(self, i, P, P_prior, where, gain):
        """C09 invariant on a returned covariance, per step: it may carry on the (rounding-level) asymmetry / negativity its
        INPUT already had, amplified by at most the step's own gain (||G||^2 for a prediction, ||I-KH|| for an update), plus
        fresh rounding of 1e-9 relative. Inherited error is accumulated rounding of a long history (an unstable model
        amplifies it like everything else); error the step itself injects is a violation."""
        res = self.res
        if not P.size:
            return
        sc = max(1.0, float(np.max(np.abs(P))), float(np.max(np.abs(P_prior))))
        a_in = float(np.max(np.abs(P_prior - P_prior.T)))
        n_in = max(0.0, -reference.min_eig(P_prior))
        a = float(np.max(np.abs(P - P.T)))
        neg = max(0.0, -reference.min_eig(P))
        g = 8.0 * max(1.0, gain)
        self.worst["asym"], self.worst["neg"] = max(self.worst["asym"], a / sc), max(self.worst["neg"], neg / sc)
        if a > g * a_in + 1e-9 * sc:
            res.add("C09", "asymmetric", f"C09:py:asymmetric:{where}", i, f"returned covariance symmetric up to rounding: max|P-P^T| <= {g:.3g} x input asymmetry {a_in:.3g} + 1e-9 x {sc:.3g}", f"max|P-P^T| = {a:.3g}")
        if neg > g * (n_in + a_in) + 1e-9 * sc:
            res.add("C09", "negative", f"C09:py:negative:{where}", i, f"returned covariance PSD up to rounding: -lambda_min <= {g:.3g} x input defect {n_in + a_in:.3g} + 1e-9 x {sc:.3g}", f"-lambda_min = {neg:.3g}")

    # ---- one sensor update with all its oracles
    def update(self, i, key, st, cov, rd, at_prediction=False):
        res, ref, ekf = self.res, self.ref, self.ekf
        x_in, P_in = self.x_of(st), np.array(cov.data, dtype=float)
        rn = ref.readings[key]
        z = {r: float(rd.data[j, 0]) for j, r in enumerate(rn)}
        snap = (st.data.tobytes(), cov.data.tobytes(), rd.data.tobytes())
        if max((abs(v) for v in x_in.values()), default=0) > GUARD_X or (P_in.size and np.max(np.abs(P_in)) > GUARD_P):
            res.truncated = "guard:magnitude"
            return None
        u = ref.update(key, x_in, P_in, z, self.k)
        if u is None:
            res.truncated = "guard:reference_numeric"
            return None
        if u["condS"] > GUARD_COND or not np.all(np.isfinite(u["S"])):
            res.truncated = "guard:cond_S"
            return None
        if P_in.size and float(np.linalg.norm(u["H"], 2)) ** 2 * float(np.linalg.norm(P_in, 2)) > 1e4 * float(np.max(np.abs(u["S"]))):
            # S = H P H^T + Q is the small difference of huge terms (steep sensor model on a near-singular covariance):
            # not a well-conditioned update, two correct implementations differ by far more than rounding of the result
            res.truncated = "guard:cancellation_in_S"
            return None
        m = u["m"]
        res.stats["update"] += 1
        if m > 1:
            res.stats["probe:multi_reading_update"] += 1
        before = {k_: (v.tobytes(), ekf.sensor_prediction_uncertainty[k_].tobytes()) for k_, v in ekf.innovations.items() if k_ != key}
        rec_before = ekf.sensor_prediction_uncertainty.get(key)
        rec_before = None if rec_before is None else np.array(rec_before).tobytes()
        exc = None
        try:
            with contextlib.redirect_stdout(io.StringIO()):
                out = ekf.sensor_model(st, cov, sensor_key=key, sensor_reading=rd)
        except AssertionError as e:
            exc = e
        except Exception as e:  # noqa: BLE001
            prop = "C06" if (self.k is not None and "ambiguous" in str(e)) else "C05"
            res.add(prop, "raises", f"{prop}:py:raises:{type(e).__name__}:m{'>=2' if m > 1 else '=1'}", i, "sensor update returns", f"{type(e).__name__}: {str(e)[:200]}")
            if _covariance_refusal(e) and reference.strictly_valid(P_in) and reference.strictly_valid(u["S"]) and reference.min_eig(u["S"]) > 1e-9 * reference.cov_scale(u["S"]):
                res.add("C09", "refused_valid", f"C09:py:refused_valid:update:{type(e).__name__}", i, "a symmetric PSD (possibly singular) covariance is accepted by the update", f"{type(e).__name__}: {str(e)[:160]}")
            res.truncated = "sut_exception"
            return None
        if exc is not None:
            if reference.strictly_valid(P_in) and reference.strictly_valid(u["S"]):
                # the reference S is valid: either the filter built a wrong S itself (C05) or its gate is too strict (C09).
                # sensor_model records the S it built before checking it, which tells the two apart.
                rec = ekf.sensor_prediction_uncertainty.get(key)
                rec_now = None if rec is None else np.array(rec).tobytes()
                built_wrong_S = rec is not None and rec_now != rec_before and rel(rec, u["S"]) > TOL_X
                if not built_wrong_S:
                    res.add("C05", "raises_on_valid_covariance", "C05:py:raises_on_valid_covariance", i, "the update returns x + K (z - h(x)), P - K H P", f"AssertionError: {str(exc)[:160]}")
                if built_wrong_S:
                    res.add("C05", "S_refused", f"C05:py:S_refused:m{'>=2' if m > 1 else '=1'}", i, f"S = H P H^T + Q = {u['S'].tolist()}", f"filter built S = {np.asarray(rec).tolist()} and refused it: AssertionError {str(exc)[:100]}")
                else:
                    res.add("C09", "refused_valid", "C09:py:refused_valid:update", i, "a symmetric PSD covariance (to 1e-12 relative) is accepted", f"AssertionError: {str(exc)[:160]}")
            else:
                res.stats["probe:refused_grey_zone"] += 1
            res.truncated = "sut_refused"
            return None
        so, co = out
        # ---- recorded innovation and S: C05 for an applied reading, C06 for a discarded one ("its innovation is still recorded")
        unchanged0 = so.data.tobytes() == st.data.tobytes() and co.data.tobytes() == cov.data.tobytes()
        rp = "C06" if (unchanged0 and self.k is not None) else "C05"
        rec_inn, rec_S = ekf.innovations.get(key), ekf.sensor_prediction_uncertainty.get(key)
        if rec_inn is None or rec_S is None:
            res.add(rp, "record_missing", f"{rp}:py:record_missing", i, "innovation and S recorded under the sensor key", "missing")
        else:
            zh_ = (float(np.max(np.abs(rd.data))) + float(np.max(np.abs(u["hx"])))) if rn else 1.0
            e1 = (float(np.max(np.abs(np.asarray(rec_inn, dtype=float) - u["inn"]))) / max(zh_, 1e-300)) if np.shape(rec_inn) == u["inn"].shape else float("inf")
            e2 = (float(np.max(np.abs(np.asarray(rec_S, dtype=float) - u["S"]))) / max(float(np.max(np.abs(u["S"]))), 1e-300)) if np.shape(rec_S) == u["S"].shape else float("inf")
            self.worst["inn"], self.worst["S"] = max(self.worst["inn"], e1), max(self.worst["S"], e2)
            if e1 > TOL_X:
                res.add(rp, "innovation_record", f"{rp}:py:innovation_record" + (":discarded_reading" if rp == "C06" else ""), i, f"innovations[{key}] = z - h(x) = {u['inn'].T.tolist()}" + (" also for a discarded reading" if rp == "C06" else ""), f"{np.asarray(rec_inn).T.tolist()}")
            if e2 > TOL_X:
                res.add(rp, "S_record", f"{rp}:py:S_record:m{'>=2' if m > 1 else '=1'}" + (":discarded_reading" if rp == "C06" else ""), i, f"S = H P H^T + Q = {u['S'].tolist()}", f"{np.asarray(rec_S).tolist()}")
        for k_, (bi, bs) in before.items():
            if ekf.innovations[k_].tobytes() != bi or ekf.sensor_prediction_uncertainty[k_].tobytes() != bs:
                res.add("C05", "record_isolation", "C05:py:record_isolation", i, f"records of sensor {k_} untouched by an update of {key}", "changed")
        if (st.data.tobytes(), cov.data.tobytes(), rd.data.tobytes()) != snap:
            res.add("C05", "input_mutated", "C05:py:input_mutated", i, "state, covariance and reading inputs unmodified", "an input array changed during sensor_model")
        # ---- decision (C06)
        unchanged = so.data.tobytes() == st.data.tobytes() and co.data.tobytes() == cov.data.tobytes()
        khp = float(np.max(np.abs(u["KHP"]))) if u["KHP"].size else 0.0
        kin = float(np.max(np.abs(u["K"] @ u["inn"]))) if u["K"].size else 0.0
        observable = khp > 1e-12 * (1 + float(np.max(np.abs(P_in)))) or kin > 1e-12
        discarded = unchanged and observable
        if self.k is None:
            res.stats["probe:filtering_disabled_update"] += 1
            if unchanged and observable:
                res.add("C06", "disabled_discards", "C06:py:disabled_discards", i, "with filtering disabled no reading is discarded", f"estimate unchanged by a reading with NIS {u['nis']:.6g}")
            want = "keep"
        else:
            want, nis_x, thr_x = reference.decide(u["inn"][:, 0], u["S"], self.k, m)
            rel_gap = abs(nis_x - thr_x) / thr_x if thr_x else 1.0
            if rel_gap < 1e-2:
                res.stats["probe:nis_within_1pct_of_threshold"] += 1
            if rel_gap < 1e-6:
                res.stats["probe:nis_within_1e-6_of_threshold"] += 1
            if rel_gap == 0.0:
                res.stats["probe:nis_exact_tie"] += 1
            if observable and want != "either":
                if want == "keep" and discarded:
                    res.add("C06", "decision", f"C06:py:decision:discarded_below_threshold:m={m}", i, f"kept: NIS {nis_x!r} <= k*sqrt(2m)+m = {thr_x!r} (k={self.k}, m={m})", "discarded (estimate unchanged)")
                if want == "discard" and not unchanged:
                    res.add("C06", "decision", f"C06:py:decision:kept_above_threshold:m={m}", i, f"discarded: NIS {nis_x!r} > k*sqrt(2m)+m = {thr_x!r} (k={self.k}, m={m})", "kept (estimate changed)")
            if want == "discard" and unchanged:
                res.stats["reject"] += 1
        if unchanged and observable:
            res.stats["probe:discarded"] += 1
        if self.k is not None and want in ("discard", "either"):
            # a (rightly, or within the band) discarded reading: nothing to compare; a wrong keep is already reported under C06
            if not unchanged:
                # ... but whatever covariance comes back must still be a valid one (C09), e.g. after a partial update
                self.cov_invariant(i, co.data, P_in, "update", float(np.linalg.norm(np.eye(len(self.S)) - u["K"] @ u["H"], 2)))
            return so, co
        # the reading must be applied (filtering disabled, or NIS clearly below the threshold): if the filter skipped the
        # update anyway, that is also a C05 violation (the update does not return x + K(z-h), P - K H P) and is caught below
        # ---- accepted update values (C05)
        res.stats["accept"] += 1
        # P - K H P and x + K(z-h) cancel: rounding is relative to the PRIOR's magnitude (and to |K (z-h)|), not to the small result
        # scale-invariant: covariance relative to the prior's magnitude (no "+1"); the state correction relative to |K (z-h)|
        # plus the rounding of x itself and of z-h (1e-3 of the 1e-9 budget each)
        p_scale = max(float(np.max(np.abs(u["P_post"]))), float(np.max(np.abs(P_in)))) if P_in.size else 1.0
        kin_ = float(np.max(np.abs(u["K"] @ u["inn"]))) if u["K"].size else 0.0
        zh = float(np.max(np.abs(rd.data))) + float(np.max(np.abs(u["hx"]))) if rn else 0.0
        x_scale = kin_ + 1e-3 * (1.0 + max(abs(v) for v in u["x_post"].values()) + (float(np.max(np.abs(u["K"]))) if u["K"].size else 0.0) * zh)
        ex = float(np.max(np.abs(np.array([[so.data[j, 0]] for j in range(len(self.S))]) - np.array([[u["x_post"][s]] for s in self.S])))) / x_scale
        eP = (float(np.max(np.abs(co.data - u["P_post"]))) / p_scale) if (P_in.size and p_scale > 0) else 0.0
        self.worst["x"], self.worst["P"] = max(self.worst["x"], ex), max(self.worst["P"], eP)
        tag = f"m{'>=2' if m > 1 else '=1'}"
        if ex > TOL_X:
            res.add("C05", "state_value", f"C05:py:state_value:{tag}", i, f"x + K (z - h(x)) = {u['x_post']}", f"{self.x_of(so)} (rel err {ex:.3g})")
        if eP > TOL_P:
            res.add("C05", "covariance_value", f"C05:py:covariance_value:{tag}", i, f"P - K H P = {u['P_post'].tolist()}", f"{co.data.tolist()} (rel err {eP:.3g})")
        sc = max(1.0, float(np.max(np.abs(P_in)))) if P_in.size else 1.0
        if co.data.size:
            a_in = float(np.max(np.abs(P_in - P_in.T)))
            g_upd = 8.0 * max(1.0, float(np.linalg.norm(np.eye(len(self.S)) - u["K"] @ u["H"], 2)))
            if float(np.max(np.abs(co.data - co.data.T))) > g_upd * a_in + 1e-8 * sc:
                res.add("C05", "posterior_asymmetric", "C05:py:posterior_asymmetric", i, "posterior covariance symmetric (beyond the asymmetry its input already had)", f"{co.data.tolist()}")
            if reference.min_eig(P_in - co.data) < -(1e-8 * sc + g_upd * a_in):
                res.add("C05", "posterior_exceeds_prior", "C05:py:posterior_exceeds_prior", i, "P - P+ positive semi-definite", f"lambda_min = {reference.min_eig(P_in - co.data):.3g}")
        if at_prediction:
            res.stats["probe:reading_equals_prediction"] += 1
            if so.data.tobytes() != st.data.tobytes() and not np.array_equal(so.data, st.data):
                res.add("C05", "prediction_reading_moves_state", "C05:py:prediction_reading_moves_state", i, "a reading equal to the prediction leaves the state unchanged", f"{st.data.T.tolist()} -> {so.data.T.tolist()}")
        self.cov_invariant(i, co.data, P_in, "update", float(np.linalg.norm(np.eye(len(self.S)) - u["K"] @ u["H"], 2)))
        return so, co


def _covariance_refusal(e) -> bool:
    """an exception that says 'this covariance is not acceptable' (as opposed to an unrelated crash)"""
    import re

    return isinstance(e, np.linalg.LinAlgError) or bool(re.search(r"positive|definite|singular|covariance|symmetric|negative|dtype|cast", str(e), re.I))


# --------------------------------------------------------------------------- execution: direct mode
def execute(schedule) -> Result:
    res = Result()
    cfg = schedule["config"]
    res.log.append("cfg " + json.dumps(cfg, sort_keys=True) + " model " + models.digest(schedule["model"]))
    try:
        h = Harness(schedule, res)
    except Exception as e:  # noqa: BLE001
        res.add("C14", "refused_valid", f"C14:python.compile_ekf:refused_valid:{type(e).__name__}", 0, "a structurally valid definition is accepted", f"{type(e).__name__}: {str(e)[:300]}")
        res.stats["compile_failed"] += 1
        res.truncated = "compile_failed"
        return res
    d = schedule["model"]
    for t in d.get("tags", []):
        res.stats["probe:model_" + t] += 1
    res.stats[f"probe:cse_{'on' if cfg['cse'] else 'off'}"] += 1
    res.stats[f"probe:k={cfg['innovation_filtering']}"] += 1
    res.stats[f"probe:controls={len(d['control'])}"] += 1
    res.stats[f"probe:calibration={'yes' if d['calibration'] else 'no'}"] += 1
    for t in schedule["init"].get("tags", []):
        res.stats["fault:" + t if t == "singular_start" else "probe:" + t] += 1
    if cfg["mode"] == "runtime":
        _execute_runtime(schedule, h, res)
    else:
        _execute_direct(schedule, h, res)
    for k_, v in h.worst.items():
        res.stats[f"worst_{k_}_e-15"] = max(res.stats.get(f"worst_{k_}_e-15", 0), int(v * 1e15))
    return res


def _log_est(res, tag, st, cov):
    res.log.append(f"{tag} x={[fx(v) for v in st.data[:, 0]]} P={[fx(v) for v in cov.data.flatten()]}")


def initial_estimate(h, init, which="state"):
    """initial State/Covariance objects, honouring the unusual dtypes a schedule may ask for (from_data on int64/float32 arrays)"""
    x = {s_: xf(v) for s_, v in init[which].items()}
    sd, cd = init.get("state_dtype", "float64"), init.get("cov_dtype", "float64")
    if sd == "float64":
        st = h.state_obj(x)
    else:
        st = h.ekf.State.from_data(np.array([[x[s_]] for s_ in h.S], dtype=sd))
    P = np.array([[xf(v) for v in row] for row in init["covariance"]], dtype=float)
    cov = h.ekf.Covariance.from_data(P if cd == "float64" else np.array(P, dtype=cd))
    # the oracles below take the estimate from these objects: they must hold what the caller supplied
    if cd == "float64" and P.size and float(np.max(np.abs(np.array(cov.data, dtype=float) - P))) > 1e-12 * max(1e-300, float(np.max(np.abs(P)))):
        for prop in ("C04", "C05", "C09"):
            h.res.add(prop, "input_covariance_altered", f"{prop}:py:input_covariance_altered", 0, f"Covariance.from_data holds the supplied matrix {P.tolist()}", f"{np.array(cov.data).tolist()}")
    if sd == "float64" and not np.array_equal(np.array(st.data, dtype=float)[:, 0], np.array([x[s_] for s_ in h.S])):
        for prop in ("C04", "C05"):
            h.res.add(prop, "input_state_altered", f"{prop}:py:input_state_altered", 0, f"the State object holds the supplied values {[x[s_] for s_ in h.S]}", f"{np.array(st.data).T.tolist()}")
    return st, cov


def _execute_direct(schedule, h: Harness, res: Result):
    init = schedule["init"]
    tracks = [initial_estimate(h, init)]
    if init.get("state2") is not None:
        tracks.append(initial_estimate(h, init, "state2"))
        res.stats["fault:second_track"] += 1
    for t_ in ("state_dtype", "cov_dtype"):
        if init.get(t_, "float64") != "float64":
            res.stats[f"fault:{t_}_{init[t_]}"] += 1
    saved = {}
    for i, op in enumerate(schedule["ops"]):
        if res.truncated:
            break
        kind = op["op"]
        if kind == "repeat":
            if op["of"] not in saved:
                continue
            k2, args, first = saved[op["of"]]
            res.stats["fault:duplicate_call_deferred"] += 1
            if k2 == "predict":
                with contextlib.redirect_stdout(io.StringIO()):
                    again = h.ekf.process_model(*args) if args[3] is not None else h.ekf.process_model(*args[:3])
                if again[0].data.tobytes() != first[0].data.tobytes() or again[1].data.tobytes() != first[1].data.tobytes():
                    res.add("C04", "repeatability", "C04:py:repeatability:deferred", i, "repeating an earlier call (same inputs) after other calls intervened gives the identical result", f"first {first[0].data.T.tolist()} again {again[0].data.T.tolist()}")
            continue
        t = op.get("track", 0)
        if t >= len(tracks):
            continue
        st, cov = tracks[t]
        if kind == "predict":
            ctl = h.ctl_obj({u: xf(v) for u, v in op["control"].items()}) if op["control"] is not None else None
            dt = xf(op["dt"])
            if "tiny_dt" in op["faults"]:
                res.stats["fault:tiny_dt"] += 1
            if "same_objects_rewritten" in op["faults"]:
                # caller-owned objects used for an earlier call with OTHER contents, then rewritten in place: the result must
                # depend on what the objects hold, not on which objects they are
                res.stats["fault:same_objects_rewritten"] += 1
                try:
                    own_st = h.ekf.State.from_data(np.array(st.data, dtype=float) + 0.25)
                    own_cov = h.ekf.Covariance.from_data(np.array(cov.data, dtype=float) * 1.5)
                    own_ctl = None if ctl is None else h.ekf.Control.from_data(np.array(ctl.data, dtype=float) + 0.5)
                    with contextlib.redirect_stdout(io.StringIO()):
                        h.ekf.process_model(dt, own_st, own_cov, own_ctl) if own_ctl is not None else h.ekf.process_model(dt, own_st, own_cov)
                    own_st.data[...] = st.data
                    own_cov.data[...] = cov.data
                    if own_ctl is not None:
                        own_ctl.data[...] = ctl.data
                    st, cov, ctl = own_st, own_cov, own_ctl
                except Exception:  # noqa: BLE001 - the warm-up call is not this step's subject
                    res.stats["probe:rewrite_warmup_failed"] += 1
            out = h.predict(i, dt, st, cov, ctl, duplicate="duplicate_call" in op["faults"])
            if out is not None:
                saved[i] = ("predict", (dt, st, cov, ctl), out)
        elif kind in ("update", "update_at_prediction", "update_from_model"):
            key = op["sensor"]
            if kind == "update_at_prediction":
                with contextlib.redirect_stdout(io.StringIO()):
                    pred = h.ekf.sensor_models[key].model(st)
                rd = h.ekf.make_reading(key, data=np.array(pred.data, dtype=float).copy())
            elif kind == "update_from_model":
                with contextlib.redirect_stdout(io.StringIO()):
                    rd = h.ekf.sensor_models[key].model(h.state_obj({s_: xf(v) for s_, v in op["at_state"].items()}))
            else:
                rd = h.reading_obj(key, {r: xf(v) for r, v in op["values"].items()})
            for f in op["faults"]:
                res.stats["fault:" + f] += 1
            out = h.update(i, key, st, cov, rd, at_prediction=kind == "update_at_prediction")
        else:
            raise RuntimeError(f"unknown op {kind}")
        if out is None:
            break
        # results handed out earlier must stay what they were (a later call must not write into an earlier result)
        for j_, (b_s, b_c, o_s, o_c) in h.handed_out[-6:]:
            if o_s.data.tobytes() != b_s or o_c.data.tobytes() != b_c:
                res.add("C04" if kind == "predict" else "C05", "earlier_result_overwritten", f"{'C04' if kind == 'predict' else 'C05'}:py:earlier_result_overwritten", i, f"the estimate returned by operation {j_} is not modified by later calls", "its arrays changed")
                h.handed_out.clear()
                break
        h.handed_out.append((i, (out[0].data.tobytes(), out[1].data.tobytes(), out[0], out[1])))
        tracks[t] = out
        res.ops += 1
        _log_est(res, f"{i} {kind} t{t}", out[0], out[1])
        res.abstract.append(f"{kind[:1]}|m={len(h.ref.readings.get(op.get('sensor'), []))}|rej={int(res.stats['probe:discarded'])%2}|n={len(h.S)}u{len(h.ref.U)}c{len(h.ref.C)}")


# --------------------------------------------------------------------------- execution: through the real ManagedFilter
class Proxy:
    """What ManagedFilter sees: the real EKF, with every call recorded and checked."""

    def __init__(self, h: Harness):
        self.h = h
        self.config = h.ekf.config
        self.control_size = h.ekf.control_size
        self.calls = []
        self.tick_index = 0
        self.budget = 0

    def make_reading(self, key, *, data=None, **kwargs):
        return self.h.ekf.make_reading(key, data=data, **kwargs)

    def process_model(self, dt, state, covariance, control=None):
        if len(self.calls) >= self.budget:
            raise rt_trace.BudgetExceeded()
        out = self.h.predict(self.tick_index, dt, state, covariance, control)
        if out is None:
            raise _Truncated()
        self.calls.append(("P", dt, state, covariance, out, control))
        return out

    def sensor_model(self, state, covariance, *, sensor_key, sensor_reading):
        if len(self.calls) >= self.budget:
            raise rt_trace.BudgetExceeded()
        out = self.h.update(self.tick_index, sensor_key, state, covariance, sensor_reading)
        if out is None:
            raise _Truncated()
        self.calls.append(("S", sensor_key, state, covariance, out, sensor_reading))
        return out


class _Truncated(Exception):
    pass


def _same(a, b):
    return a.data.tobytes() == b.data.tobytes()


def _execute_runtime(schedule, h: Harness, res: Result):
    from fractions import Fraction

    from formak.runtime import ManagedFilter, StampedReading

    init, cfg = schedule["init"], schedule["config"]
    max_dt = xf(cfg["max_dt_sec"])
    st, cov = initial_estimate(h, init)
    px = Proxy(h)
    mf = ManagedFilter(px, xf(init["time"]), st, cov)
    held_t, held = xf(init["time"]), (st, cov)
    seen = [Fraction(held_t)]
    has_control = h.ekf.control_size > 0
    for i, op in enumerate(schedule["ops"]):
        if res.truncated:
            break
        px.calls, px.tick_index = [], i
        rd = op.get("readings") or []
        groups, cur = [], held_t
        for r in rd:
            groups.append((cur, xf(r["t"])))
            cur = xf(r["t"])
        groups.append((cur, xf(op["t_out"])))
        px.budget = rt_trace.budget_for(groups, len(rd), max_dt)
        readings = []
        for j, r in enumerate(rd):
            vals = {k_: xf(v) for k_, v in r["values"].items()}
            if j % 2:
                readings.append(StampedReading(xf(r["t"]), r["sensor"], _data=h.reading_obj(r["sensor"], vals)))
            else:
                readings.append(StampedReading(xf(r["t"]), r["sensor"], **vals))
            for f in r["faults"]:
                res.stats["fault:" + f.split(":")[0] + (":" + f.split(":")[1] if f.startswith("corrupt") else "")] += 1
        for f in op["faults"]:
            res.stats["fault:" + f] += 1
        ctl = h.ctl_obj({u: xf(v) for u, v in op["control"].items()}) if op["control"] is not None else None
        missing = has_control and ctl is None
        exc = ret = None
        try:
            ret = mf.tick(xf(op["t_out"]), control=ctl, readings=readings)
        except _Truncated:
            break
        except rt_trace.BudgetExceeded:
            res.add("C10", "termination", "C10:py:termination", i, "propagation finishes", "budget exceeded", "py")
            res.truncated = "budget"
            break
        except Exception as e:  # noqa: BLE001
            exc = e
        if missing:
            if exc is None or px.calls:
                res.add("C11", "missing_control", "C11:py:missing_control", i, "the tick is refused (an exception) and the filter is not called", f"exc={type(exc).__name__ if exc else None} calls={len(px.calls)}")
                if exc is None:
                    break
            continue
        if exc is not None:
            res.add("C11", "tick_raised", f"C11:py:tick_raised:{type(exc).__name__}", i, "tick returns", f"{type(exc).__name__}: {str(exc)[:200]}")
            res.truncated = "sut_exception"
            break
        # ---- the recorded calls must parse as the fold
        segs, curseg, scalls = [], [], []
        for c in px.calls:
            if c[0] == "S":
                segs.append(curseg)
                curseg = []
                scalls.append(c)
            else:
                curseg.append(c)
        segs.append(curseg)
        ok = True
        if len(scalls) != len(rd):
            ok = False
            res.add("C11", "sensor_count", "C11:py:sensor_count:value_level", i, f"{len(rd)} sensor updates", f"{len(scalls)}")
        else:
            for c, r in zip(scalls, rd):
                want = h.reading_obj(r["sensor"], {k_: xf(v) for k_, v in r["values"].items()})
                if c[1] != r["sensor"] or c[5].data.tobytes() != want.data.tobytes():
                    ok = False
                    res.add("C11", "sensor_order", "C11:py:sensor_order:value_level", i, f"update with reading {r['rid']} of {r['sensor']}", f"{c[1]} {c[5].data.T.tolist()}")
                    break
        prev = held
        for j, c in enumerate(px.calls):
            if not (_same(c[2], prev[0]) and _same(c[3], prev[1])):
                ok = False
                res.add("C11", "held_estimate" if j == 0 else "chain", f"C11:py:{'held_estimate' if j == 0 else 'chain'}:value_level", i, "each filter call continues from the previous result (the first from the held estimate)", f"call {j} starts from another estimate")
                break
            prev = c[4]
            if c[0] == "P" and not (c[5] is ctl or (c[5] is None and ctl is None)):
                res.add("C11", "control_passed", "C11:py:control_passed:value_level", i, "the tick's control in every prediction", "another control object")
        if ok and not (_same(ret.state, prev[0]) and _same(ret.covariance, prev[1])):
            res.add("C11", "returned_estimate", "C11:py:returned_estimate:value_level", i, "tick returns the held estimate propagated to the output time", f"{ret.state.data.T.tolist()}")
        if not ok:
            res.truncated = "state_unknown"
            break
        sig = []
        for g, ((a, b), seg) in enumerate(zip(groups, segs)):
            sig.append(rt_trace.check_group(res, "py", i, g, Fraction(a), Fraction(b), [c[1] for c in seg], Fraction(max_dt), seen))
            seen.append(Fraction(b))
        # ---- by-hand fold over the same EKF object, replaying the recorded sub-steps: bit-identical
        res.stats["probe:by_hand_replays"] += 1
        hs, hc = held
        # the by-hand fold runs on a SEPARATE filter object compiled from the same definition that has never been ticked:
        # hidden state inside the filter (caches, mutated noise) must not make a tick depend on the history of calls
        hand = h.fresh_filter()
        with contextlib.redirect_stdout(io.StringIO()):
            for c in px.calls:
                if c[0] == "P":
                    hs, hc = hand.process_model(c[1], hs, hc, c[5]) if c[5] is not None else hand.process_model(c[1], hs, hc)
                else:
                    hs, hc = hand.sensor_model(hs, hc, sensor_key=c[1], sensor_reading=c[5])
        if hs.data.tobytes() != ret.state.data.tobytes() or hc.data.tobytes() != ret.covariance.data.tobytes():
            res.add("C11", "by_hand_fold", "C11:py:by_hand_fold", i, f"tick == by-hand fold over the same filter: {hs.data.T.tolist()}", f"{ret.state.data.T.tolist()}")
        if rd:
            held, held_t = scalls[-1][4], xf(rd[-1]["t"])
        res.ops += 1
        _log_est(res, f"{i} tick", ret.state, ret.covariance)
        res.abstract.append(f"t|{''.join(sig)}|n={min(len(rd), 4)}|s={','.join(r['sensor'] for r in rd[:3])}")


def simplify(schedule):
    """shrink the model: drop unused sensors; switch CSE off; identity covariance."""
    used = {op.get("sensor") for op in schedule["ops"]} | {r["sensor"] for op in schedule["ops"] for r in (op.get("readings") or [])}
    for key in list(schedule["model"]["sensors"]):
        if key not in used:
            s = json.loads(json.dumps(schedule))
            del s["model"]["sensors"][key]
            yield s
    if schedule["config"]["cse"]:
        s = json.loads(json.dumps(schedule))
        s["config"]["cse"] = False
        yield s
    n = len(schedule["init"]["covariance"])
    ident = [[fx(1.0 if i == j else 0.0) for j in range(n)] for i in range(n)]
    if schedule["init"]["covariance"] != ident:
        s = json.loads(json.dumps(schedule))
        s["init"]["covariance"] = ident
        yield s
    for op_i, op in enumerate(schedule["ops"]):
        if op.get("faults"):
            s = json.loads(json.dumps(schedule))
            s["ops"][op_i]["faults"] = []
            yield s
