"""W1 rt_trace: the real ManagedFilter (Python and C++) over a token-recording stand-in filter.

Decides C10 (bounded, correctly directed steps) and the trace level of C11 (tick = fold).
The simulator's clock is the only clock: time enters the runtime only via the stamps passed.
"""
from __future__ import annotations

import collections
import heapq
import json
import math
import os
import struct
import subprocess
from fractions import Fraction
from types import SimpleNamespace

from fsim import core
from fsim.core import Result, fx, xf, mix64

MAXDT_MENU = [0.1, 0.05, 0.01, 0.25, 0.3, 1.0, 1e-3, 2.0, 0.07]
TOL = 1e-9
SUM_TOL = Fraction(11, 10**10)  # 1e-9 (property) + 1e-10 slack for the rounding of current+max_dt*n at |t|<=1e5
BOUND_SLACK = Fraction(1, 10**9)
K_P, K_S = 0x50, 0x53


def dbits(x: float) -> int:
    return struct.unpack("<Q", struct.pack("<d", x))[0]


def tokP(tok, dt):
    return mix64(tok, K_P, dbits(dt))


def tokS(tok, sensor, rid):
    return mix64(tok, K_S, sensor, rid)


class BudgetExceeded(Exception):
    pass


class Tok:
    __slots__ = ("tok",)

    def __init__(self, tok):
        self.tok = tok


class Ctl:
    __slots__ = ("cid",)

    def __init__(self, cid):
        self.cid = cid


class Rd:
    __slots__ = ("sensor", "rid")

    def __init__(self, sensor, rid):
        self.sensor, self.rid = sensor, rid


class StandIn:
    """Exposes exactly what formak.runtime.ManagedFilter uses of a filter."""

    def __init__(self, max_dt, control_size):
        self.config = SimpleNamespace(max_dt_sec=max_dt)
        self.control_size = control_size
        self.calls = []
        self.budget = 0

    def process_model(self, dt, state, covariance, control=None):
        if len(self.calls) >= self.budget:
            raise BudgetExceeded()
        so, co = tokP(state.tok, dt), tokP(covariance.tok, dt)
        self.calls.append(("P", dt, state.tok, covariance.tok, so, co, -1 if control is None else control.cid))
        return Tok(so), Tok(co)

    def sensor_model(self, state, covariance, *, sensor_key, sensor_reading):
        if len(self.calls) >= self.budget:
            raise BudgetExceeded()
        if sensor_reading.rid % 5 == 0:
            # like a real filter that discards an outlier: hands back the very objects it was given (estimate unchanged)
            self.calls.append(("S", sensor_key, sensor_reading.rid, state.tok, covariance.tok, state.tok, covariance.tok, sensor_reading.sensor))
            return state, covariance
        so, co = tokS(state.tok, sensor_reading.sensor, sensor_reading.rid), tokS(covariance.tok, sensor_reading.sensor, sensor_reading.rid)
        self.calls.append(("S", sensor_key, sensor_reading.rid, state.tok, covariance.tok, so, co, sensor_reading.sensor))
        return Tok(so), Tok(co)

    def make_reading(self, key, *, data=None, **kwargs):
        return Rd(int(key[1:]), kwargs["rid"])


# --------------------------------------------------------------------------- generation
def _ulp_step(x, n):
    for _ in range(abs(n)):
        x = math.nextafter(x, math.inf if n > 0 else -math.inf)
    return x


def generate(rng, prop, tier):
    long = tier == "thorough"
    cfg = {
        "max_dt_index": rng.randrange(len(MAXDT_MENU)),
        "has_control": rng.random() < 0.5,
        "has_cal": rng.random() < 0.5,
        "n_sensors": rng.choice([0, 1, 1, 2, 3, 4]),
        "generator": "des" if rng.random() < 0.5 else "adversarial",
    }
    max_dt = MAXDT_MENU[cfg["max_dt_index"]]
    cfg["max_dt_sec"] = fx(max_dt)
    # another managed filter with a DIFFERENT maximum step lives in the same process and moves through the same times first
    # (state shared between instances / carried across calls must not leak into this one)
    cfg["sibling_max_dt_index"] = rng.choice([i for i in range(len(MAXDT_MENU)) if i != cfg["max_dt_index"]]) if rng.random() < 0.25 else None
    t0 = rng.choice([0.0, 0.0, 1.0, -3.5, 100.0, 1234.5678, -99999.0, 86400.0, rng.uniform(-1e5, 1e5)])
    init = {"time": fx(t0), "state_tok": rng.getrandbits(63), "cov_tok": rng.getrandbits(63), "cal_id": rng.randrange(1, 1000)}
    if cfg["generator"] == "des":
        ops, faults = _gen_des(rng, cfg, max_dt, t0, long)
    else:
        ops, faults = _gen_adv(rng, cfg, max_dt, t0, long)
    ops = _cap_cost(ops, cfg, max_dt, t0, 400_000 if long else 150_000)
    # final probe ticks: observe what is held without readings (twice: the first must not change what the second returns)
    last = xf(ops[-1]["t_out"]) if ops else t0
    for d in (rng.uniform(-2, 2) * max_dt, rng.uniform(0, 3) * max_dt):
        ops.append({"op": "tick", "t_out": fx(last + d), "control": 7 if cfg["has_control"] else None, "readings": [], "faults": ["probe_tick"]})
    return {"config": cfg, "init": init, "ops": ops, "faults": faults}


def _cap_cost(ops, cfg, max_dt, t0, cap):
    """bound the cost of one run: the number of process-model steps a faithful runtime needs for this history (a skewed
    sensor stamped 1 s off with a 1 ms step costs a thousand steps per reading and direction).  The history is cut (whole
    ticks from the end, then readings of the last tick) where the estimate passes the cap -- a run is a few seconds, not minutes."""
    if cfg.get("sibling_max_dt_index") is not None:
        max_dt = min(max_dt, MAXDT_MENU[cfg["sibling_max_dt_index"]])  # the sibling walks through the same times with its own step
    held, total, out = t0, 0.0, []
    for op in ops:
        rd = op.get("readings") or []
        if cfg["has_control"] and op["control"] is None:
            out.append(op)
            continue
        cur, kept = held, []
        for r in rd:  # list order: the costlier of the two orders a runtime may use (sorted order never moves further)
            c = abs(xf(r["t"]) - cur) / max_dt + 1
            if total + c > cap:
                break
            total += c
            cur = xf(r["t"])
            kept.append(r)
        if len(kept) < len(rd):
            out.append(dict(op, readings=kept, t_out=fx(cur), faults=op["faults"] + ["probe:cost_capped"]))
            return out
        c = abs(xf(op["t_out"]) - cur) / max_dt + 1
        if total + c > cap:
            out.append(dict(op, t_out=fx(cur), faults=op["faults"] + ["probe:cost_capped"]))
            return out
        total += c
        out.append(op)
        if rd:
            held = cur
    return out


def _gen_des(rng, cfg, max_dt, t0, long):
    """Discrete-event world: sensors -> lossy/reordering channels -> consumer ticking the managed filter."""
    enabled = {k: rng.random() < 0.5 for k in ("reorder", "drop", "duplicate", "burst", "stale", "future", "skew", "outage", "stall", "clock_jump", "zero_tick", "dup_tick", "missing_control")}
    if rng.random() < 0.15:
        enabled = {k: False for k in enabled}  # fault-free configuration
    rate = {k: (rng.uniform(0.02, {"drop": 0.3, "duplicate": 0.2, "burst": 0.1, "stale": 0.15, "future": 0.1, "stall": 0.1, "clock_jump": 0.1, "zero_tick": 0.1, "dup_tick": 0.1, "missing_control": 0.05}.get(k, 0.2)) if v else 0.0) for k, v in enabled.items()}
    # consumer period relative to the step: from sub-step ticks to a few hundred steps per tick (stalls multiply it)
    period_out = max_dt * rng.choice([0.3, 1.0, 2.5, 2.5, 7.0, 7.0, 30.0, 100.0]) if rng.random() < 0.7 else rng.choice([0.1, 0.25, 0.5, 1.0, 1 / 30, 0.02])
    period_out = min(period_out, 300 * max_dt)
    n_ticks = rng.randint(4, 40 if long else 14)
    sensors = []
    for s in range(cfg["n_sensors"]):
        sensors.append({
            "period": period_out * rng.choice([0.3, 0.5, 1.0, 1.7, 4.0]),
            "phase": rng.uniform(0, 1) * period_out,
            "offset": rng.uniform(-1, 1) if enabled["skew"] else 0.0,
            "drift": rng.uniform(-1e-3, 1e-3) if enabled["skew"] else 0.0,
            "lat": rng.uniform(0, 3) * period_out if enabled["reorder"] else 0.0,
            "outage": (rng.uniform(0, n_ticks * period_out), rng.uniform(5, 50) * period_out * 0.3) if enabled["outage"] else None,
        })
    heap, seq = [], 0

    def push(t, kind, data):
        nonlocal seq
        seq += 1
        heapq.heappush(heap, (t, seq, kind, data))

    for s, sd in enumerate(sensors):
        push(sd["phase"], "emit", s)
    push(period_out, "wake", 1)
    inbox, ops, rid, fired = [], [], 0, []
    held_guess = t0
    now = 0.0
    horizon = (n_ticks + 2) * period_out * 4
    while heap and len(ops) < n_ticks and now < horizon * 10:
        now, _, kind, data = heapq.heappop(heap)
        if kind == "emit":
            sd = sensors[data]
            push(now + sd["period"], "emit", data)
            if sd["outage"] and sd["outage"][0] <= now <= sd["outage"][0] + sd["outage"][1]:
                fired.append("outage")
                continue
            stamp = t0 + now + sd["offset"] + sd["drift"] * now
            tags = []
            if sd["offset"] or sd["drift"]:
                tags.append("skew")
            if rng.random() < rate["stale"]:
                stamp = held_guess - rng.uniform(0, 50) * max_dt
                tags.append("stale")
            elif rng.random() < rate["future"]:
                stamp = t0 + now + period_out + rng.uniform(0, 20) * max_dt
                tags.append("future")
            n_copies = 1 + (rng.randint(1, 3) if rng.random() < rate["burst"] else 0)
            for c in range(n_copies):
                rid += 1
                rd = {"t": fx(stamp), "sensor": data, "rid": rid, "faults": tags + (["burst"] if n_copies > 1 else [])}
                if rng.random() < rate["drop"]:
                    fired.append("drop")
                    continue
                lat = rng.uniform(0, sd["lat"]) if sd["lat"] else 0.0
                if lat > 0:
                    rd["faults"] = rd["faults"] + ["delay"]
                push(now + lat, "deliver", rd)
                if rng.random() < rate["duplicate"]:
                    dup = dict(rd)
                    dup["faults"] = rd["faults"] + [f"dup_of:{rd['rid']}"]
                    push(now + lat + rng.uniform(0, 2) * period_out, "deliver", dup)
        elif kind == "deliver":
            inbox.append(data)
        else:  # wake
            k = data
            skip = rng.randint(2, 200 if long else 40) if rng.random() < rate["stall"] else 1
            push(now + skip * period_out, "wake", k + 1)
            t_out = t0 + now
            tags = ["stall"] if skip > 1 else []
            if rng.random() < rate["clock_jump"]:
                t_out += rng.choice([-1, 1]) * rng.uniform(0, 100) * max_dt
                tags.append("clock_jump")
            if ops and rng.random() < rate["zero_tick"]:
                t_out = rng.choice([xf(ops[-1]["t_out"]), held_guess])
                tags.append("zero_tick")
            batch, inbox = inbox, []
            # reorder tag: list order differs from stamp order
            stamps = [xf(r["t"]) for r in batch]
            if stamps != sorted(stamps):
                tags.append("reorder")
            ctl = rng.randrange(1, 1000) if cfg["has_control"] else None
            op = {"op": "tick", "t_out": fx(t_out), "control": ctl, "readings": batch, "faults": tags}
            if cfg["has_control"] and rng.random() < rate["missing_control"]:
                op = dict(op, control=None, faults=tags + ["missing_control"])
                inbox = batch  # not consumed by a refused tick: redeliver
                op["readings"] = list(batch)
            elif batch:
                held_guess = stamps[-1]
            if not batch and rng.random() < 0.3:
                op["readings"] = None  # tick(..., readings=None)
            ops.append(op)
            if rng.random() < rate["dup_tick"]:
                ops.append(dict(json.loads(json.dumps(op)), faults=op["faults"] + ["dup_tick"]))
    return ops, sorted(set(fired))


def _gen_adv(rng, cfg, max_dt, t0, long):
    """Adversarial generator: draws times directly around the step/threshold boundaries."""
    n_ticks = rng.randint(3, 30 if long else 10)
    held = t0
    ops, rid = [], 0
    big = 20000 if long else 3000

    def target(base):
        r = rng.random()
        if r < 0.08:
            return base, "boundary:zero"
        k = rng.choice([0, 1, 1, 2, 3, 5, 10, 50]) if r < 0.8 else rng.randint(51, big)
        sign = rng.choice([-1, 1])
        kind = rng.random()
        if kind < 0.25:
            # exact multiple, computed as the implementation would (held + max_dt*k)
            return base + sign * max_dt * k, "boundary:exact_multiple"
        if kind < 0.45:
            return _ulp_step(base + sign * max_dt * k, rng.choice([-2, -1, 1, 2])), "boundary:ulp"
        if kind < 0.65:
            return base + sign * max_dt * k + rng.choice([-1, 1]) * rng.choice([0.5e-9, 0.9e-9, 1.5e-9, 3e-9, 1e-7]), "boundary:nano"
        if kind < 0.8:
            # decimal / dyadic grids (0.1*k is not an exact multiple in binary)
            g = rng.choice([0.1, 0.01, 0.25, 0.5, 1.0, 0.125])
            return round(base / g) * g + sign * g * rng.randint(0, 30), "boundary:grid"
        if kind < 0.9:
            return base + sign * rng.uniform(0, 1) * max_dt, "boundary:sub_step"
        return base + sign * rng.uniform(0, k + 1) * max_dt, "boundary:random"

    for _ in range(n_ticks):
        nr = rng.choice([0, 0, 1, 1, 2, 3, 5]) if cfg["n_sensors"] else 0
        readings = []
        cur = held
        tags = []
        for _j in range(nr):
            st, tag = target(cur)
            if abs(st) > 1e5:
                st = cur
            rid += 1
            f = [tag]
            if st < cur:
                f.append("stale")
            readings.append({"t": fx(st), "sensor": rng.randrange(cfg["n_sensors"]), "rid": rid, "faults": f})
            if readings and rng.random() < 0.1:
                rid += 1
                readings.append({"t": fx(st), "sensor": rng.randrange(cfg["n_sensors"]), "rid": rid, "faults": ["burst"]})
            if rng.random() < 0.08:
                readings.append(dict(readings[-1], faults=[f"dup_of:{readings[-1]['rid']}"]))
            cur = st
        t_out, tag = target(cur)
        if abs(t_out) > 1e5:
            t_out = cur
        tags.append(tag)
        if t_out < cur:
            tags.append("clock_jump")
        ctl = rng.randrange(1, 1000) if cfg["has_control"] else None
        op = {"op": "tick", "t_out": fx(t_out), "control": ctl, "readings": readings if (readings or rng.random() < 0.7) else None, "faults": tags}
        if cfg["has_control"] and rng.random() < 0.04:
            op = dict(op, control=None, faults=tags + ["missing_control"])
        else:
            held = cur
        ops.append(op)
        if rng.random() < 0.06:
            ops.append(dict(json.loads(json.dumps(op)), faults=op["faults"] + ["dup_tick"]))
            if op["control"] is not None or not cfg["has_control"]:
                held = cur
    return ops, []


# --------------------------------------------------------------------------- fold model: expected propagations per tick
def fold_plan(schedule):
    """Yields per op: (missing_control, [(t_from, t_to)...k+1 groups], readings). Held time per the fold model."""
    cfg = schedule["config"]
    held = xf(schedule["init"]["time"])
    out = []
    for op in schedule["ops"]:
        rd = op.get("readings") or []
        if cfg["has_control"] and op["control"] is None:
            out.append((True, [], rd, held))
            continue
        groups, cur = [], held
        for r in rd:
            groups.append((cur, xf(r["t"])))
            cur = xf(r["t"])
        groups.append((cur, xf(op["t_out"])))
        out.append((False, groups, rd, held))
        if rd:
            held = cur
    return out


def budget_for(groups, n_readings, max_dt):
    # generous: a faithful implementation may take smaller steps than necessary; only a runaway loop exhausts this
    return min(5_000_000, int(sum(200 * (abs(b - a) / max_dt + 2) for a, b in groups)) + n_readings + 8)


# --------------------------------------------------------------------------- legs
def run_py(schedule, plan):
    from formak.runtime import ManagedFilter, StampedReading

    cfg, init = schedule["config"], schedule["init"]
    max_dt = xf(cfg["max_dt_sec"])
    if cfg.get("sibling_max_dt_index") is not None:
        sib = StandIn(MAXDT_MENU[cfg["sibling_max_dt_index"]], 1 if cfg["has_control"] else 0)
        sib.budget = 3000
        smf = ManagedFilter(sib, xf(init["time"]), Tok(1), Tok(2))
        for op in schedule["ops"]:
            sib.calls = []
            try:
                smf.tick(xf(op["t_out"]), control=Ctl(op["control"]) if op["control"] is not None else None,
                         readings=[StampedReading(xf(r["t"]), f"s{r['sensor']}", rid=r["rid"]) for r in (op.get("readings") or [])])
            except Exception:  # noqa: BLE001
                pass
    si = StandIn(max_dt, 1 if cfg["has_control"] else 0)
    mf = ManagedFilter(si, xf(init["time"]), Tok(init["state_tok"]), Tok(init["cov_tok"]), calibration_map={"cal": init["cal_id"]} if cfg["has_cal"] else None)
    ticks = []
    for op, (missing, groups, rd, _h) in zip(schedule["ops"], plan):
        si.calls = []
        si.budget = budget_for(groups, len(rd), max_dt) if not missing else 4
        readings = None
        if op.get("readings") is not None:
            readings = []
            for j, r in enumerate(op["readings"]):
                if j % 2:
                    readings.append(StampedReading(xf(r["t"]), f"s{r['sensor']}", _data=Rd(r["sensor"], r["rid"])))
                else:
                    readings.append(StampedReading(xf(r["t"]), f"s{r['sensor']}", rid=r["rid"]))
        ctl = Ctl(op["control"]) if op["control"] is not None else None
        rec = {"calls": si.calls, "ret": None, "exc": None}
        try:
            out = mf.tick(xf(op["t_out"]), control=ctl, readings=readings)
            rec["ret"] = (out.state.tok, out.covariance.tok)
        except BudgetExceeded:
            rec["exc"] = "BudgetExceeded"
        except Exception as e:  # noqa: BLE001
            rec["exc"] = type(e).__name__
        ticks.append(rec)
        if rec["exc"] == "BudgetExceeded":
            break
    return ticks


_CPP = {}


def prepare(tier):
    """Compile the 4 Tag configurations of the C++ leg from the ManagedFilter.h of the current tree (once per check)."""
    from fsim import cppbuild

    if _CPP:
        return
    _CPP.update(cppbuild.build_rt_drivers())


def run_cpp(schedule, plan):
    cfg, init = schedule["config"], schedule["init"]
    key = (cfg["has_control"], cfg["has_cal"])
    info = _CPP.get(key)
    if info is None or info.get("error"):
        return None, (info or {}).get("error", "C++ driver not built")
    max_dt = xf(cfg["max_dt_sec"])
    lines = [f"NEW {cfg['max_dt_index']} {fx(xf(init['time']))} {init['state_tok']} {init['cov_tok']} {init['cal_id']}"]
    idx_map = []
    for i, (op, (missing, groups, rd, _h)) in enumerate(zip(schedule["ops"], plan)):
        if missing:
            continue  # cannot be expressed in C++: refused at compile time (negative compile test)
        idx_map.append(i)
        parts = [f"TICK {fx(xf(op['t_out']))} {op['control'] if op['control'] is not None else -1} {budget_for(groups, len(rd), max_dt)} {len(rd)} {0 if op.get('readings') is None else 1}"]
        for r in rd:
            parts.append(f"{fx(xf(r['t']))} {r['sensor']} {r['rid']}")
        lines.append(" ".join(parts))
    try:
        cp = subprocess.run([info["bin"]], input="\n".join(lines) + "\n", capture_output=True, text=True, timeout=60)
    except subprocess.TimeoutExpired:
        return None, "C++ driver timeout"
    ticks = {}
    cur = None
    for ln in cp.stdout.splitlines():
        p = ln.split()
        if p[0] == "T":
            cur = {"calls": [], "ret": None, "exc": None}
            ticks[idx_map[int(p[1])]] = cur
        elif p[0] == "P":
            cur["calls"].append(("P", float.fromhex(p[1]), int(p[2]), int(p[3]), int(p[4]), int(p[5]), int(p[6]), int(p[7])))
        elif p[0] == "S":
            cur["calls"].append(("S", f"s{p[1]}", int(p[2]), int(p[3]), int(p[4]), int(p[5]), int(p[6]), int(p[1]), int(p[7])))
        elif p[0] == "R":
            cur["ret"] = (int(p[1]), int(p[2]))
        elif p[0] == "X":
            cur["exc"] = "BudgetExceeded"
    if cp.returncode not in (0, 3):
        return None, f"C++ driver rc={cp.returncode} {cp.stderr[-300:]}"
    return ticks, None


# --------------------------------------------------------------------------- oracle
def check_leg(schedule, plan, ticks, leg, res: Result):
    cfg, init = schedule["config"], schedule["init"]
    max_dt = Fraction(xf(cfg["max_dt_sec"]))
    s_held, c_held = init["state_tok"], init["cov_tok"]
    seen_times = [Fraction(xf(init["time"]))]
    valid_at = {init["state_tok"]: Fraction(xf(init["time"]))}  # the time each estimate token is valid for (initial time + sum of the dt applied)
    for i, (op, (missing, groups, rd, _held)) in enumerate(zip(schedule["ops"], plan)):
        if isinstance(ticks, dict):
            rec = ticks.get(i)
            if rec is None:
                if missing:
                    continue
                break
        else:
            if i >= len(ticks):
                break
            rec = ticks[i]
        calls = rec["calls"]
        res.log.append(f"{leg} tick {i} calls={len(calls)} ret={rec['ret']} exc={rec['exc']}")
        for c in calls:
            res.log.append(f"{leg}  {c[0]} {fx(c[1]) if c[0]=='P' else c[1]} {c[2:]}")
        if rec["exc"] == "BudgetExceeded":
            res.add("C10", "termination", f"C10:{leg}:termination", i, "propagation finishes within 10x(|delta|/max_dt+2) calls", f"{len(calls)} calls and still stepping", leg)
            res.truncated = "budget"
            return
        if missing:
            res.stats["fault:missing_control"] += 1
            # the property says such a tick "cannot" happen: any refusal (TypeError today, any exception class) is fine,
            # a tick that goes through, or one that reaches the filter before refusing, is not
            if rec["exc"] is None or calls:
                res.add("C11", "missing_control", f"C11:{leg}:missing_control", i, "the tick is refused (an exception) and the filter is not called", f"exc={rec['exc']} calls={len(calls)}", leg)
                if rec["exc"] is None:
                    res.truncated = "state_unknown"
                    return
            continue
        if rec["exc"] is not None:
            res.add("C11", "tick_raised", f"C11:{leg}:tick_raised:{rec['exc']}", i, "tick returns", f"raised {rec['exc']}", leg)
            res.truncated = "state_unknown"
            return
        want_ctl = op["control"] if op["control"] is not None else -1
        # ---- split by sensor calls
        segs, cur, scalls = [], [], []
        for c in calls:
            if c[0] == "S":
                segs.append(cur)
                cur = []
                scalls.append(c)
            else:
                cur.append(c)
        segs.append(cur)
        ok_structure = True
        got = [(c[7], c[2]) for c in scalls]
        want = [(r["sensor"], r["rid"]) for r in rd]
        if got != want:
            ok_structure = False
            clause = "sensor_count" if len(got) != len(want) else "sensor_order"
            if clause == "sensor_order" and sorted(got) != sorted(want):
                clause = "sensor_identity"
            res.add("C11", clause, f"C11:{leg}:{clause}", i, f"sensor updates (sensor,rid) in list order {want}", f"{got}", leg)
        # ---- token chain: every call continues from the previous one; the first from what the fold model holds
        ps, pc = s_held, c_held
        chain_ok = True
        for j, c in enumerate(calls):
            sin, cin, sout, cout = (c[2], c[3], c[4], c[5]) if c[0] == "P" else (c[3], c[4], c[5], c[6])
            if (sin, cin) != (ps, pc):
                chain_ok = False
                clause = "held_estimate" if j == 0 else "chain"
                res.add("C11", clause, f"C11:{leg}:{clause}", i, f"call {j} continues from state/cov tokens {(ps, pc)}", f"got {(sin, cin)}", leg)
                if j == 0 and c[0] == "P" and sin in valid_at and ok_structure and segs and segs[0]:
                    # the runtime moves ANOTHER estimate (one it produced earlier, valid for another time): its steps must then
                    # lead from THAT estimate's time to the target (C10 is about the estimate that is actually moved)
                    tv, tt = valid_at[sin], Fraction(groups[0][1])
                    total = sum((Fraction(x[1]) for x in segs[0]), Fraction(0))
                    if abs(total - (tt - tv)) > SUM_TOL:
                        res.add("C10", "sum", f"C10:{leg}:sum:moved_estimate_valid_at_another_time", i, f"the estimate being moved is valid for t={float(tv)!r}; steps to {float(tt)!r} sum to {float(tt - tv)!r} within 1e-9", f"sum={float(total)!r} steps={_fmt([x[1] for x in segs[0]])}", leg)
                break
            if sin in valid_at:
                valid_at[sout] = valid_at[sin] + (Fraction(c[1]) if c[0] == "P" else 0)
            ps, pc = sout, cout
            if c[0] == "P" and c[6] != want_ctl:
                res.add("C11", "control_passed", f"C11:{leg}:control_passed", i, f"control id {want_ctl} in every prediction", f"{c[6]}", leg)
                break
            if leg == "cpp" and cfg["has_cal"] and (c[7] if c[0] == "P" else c[8]) != init["cal_id"]:
                res.add("C11", "calibration_passed", f"C11:{leg}:calibration_passed", i, f"calibration id {init['cal_id']} in every filter call", f"{c}", leg)
                break
        if chain_ok and rec["ret"] != (ps, pc):
            res.add("C11", "returned_estimate", f"C11:{leg}:returned_estimate", i, f"returns the held estimate propagated to the output time: tokens {(ps, pc)}", f"{rec['ret']}", leg)
        # ---- C10 per propagation group (only attributable if the structure parsed)
        sig = []
        if ok_structure:
            for g, ((t_from, t_to), seg) in enumerate(zip(groups, segs)):
                sig.append(check_group(res, leg, i, g, Fraction(t_from), Fraction(t_to), [c[1] for c in seg], max_dt, seen_times))
                seen_times.append(Fraction(t_to))
                if leg == "py":
                    res.sim_time += abs(t_to - t_from)
        else:
            seen_times.extend(Fraction(b) for _a, b in groups)
        # ---- advance the fold model
        if not chain_ok or not ok_structure:
            res.truncated = "state_unknown"
            return
        if rd:
            c = scalls[-1]
            s_held, c_held = c[5], c[6]
        res.abstract.append(f"{leg[:2]}:{''.join(sig)}|n={min(len(rd),4)}|s={''.join(str(r['sensor']) for r in rd[:4])}")
        if leg != "py":
            continue
        res.ops += 1
        res.stats["calls"] += len(calls)
        for f in op.get("faults", []):
            if f.startswith("probe:"):
                res.stats[f] += 1
                continue
            res.stats["fault:" + f.split(":")[0] + (":" + f.split(":")[1] if f.startswith("boundary") else "")] += 1
        for r in rd:
            for f in r.get("faults", []):
                res.stats["fault:" + f.split(":")[0] + (":" + f.split(":")[1] if f.startswith("boundary") else "")] += 1


def check_group(res, leg, i, g, t_from, t_to, dts, max_dt, seen_times):
    delta = t_to - t_from
    counts = collections.Counter(dts)
    fd = [Fraction(d) for d in counts]  # distinct step values (a propagation repeats max_dt many times)
    total = sum((Fraction(d) * n for d, n in counts.items()), Fraction(0))
    direction = "fwd" if delta > 0 else "bwd" if delta < 0 else "zero"
    mdt = float(max_dt)
    P = res.stats if leg == "py" else collections.Counter()
    P["propagations"] += 1
    if delta == 0:
        P["probe:delta_zero"] += 1
    elif abs(delta) < Fraction(1, 10**9):
        P["probe:delta_sub_nano"] += 1
    elif abs(delta) < max_dt:
        P["probe:delta_lt_max_dt"] += 1
    if delta < 0:
        P["probe:backward"] += 1
        if mdt < 0.1:
            P["probe:backward_and_max_dt_lt_0.1"] += 1
        if mdt > 0.1:
            P["probe:backward_and_max_dt_gt_0.1"] += 1
    if delta != 0 and (delta / max_dt).denominator == 1:
        P["probe:exact_multiple"] += 1
    if len(dts) > 100:
        P["probe:over_100_steps"] += 1
    believed = delta
    if abs(total - delta) > SUM_TOL:
        alt = [h for h in seen_times if abs(total - (t_to - h)) <= SUM_TOL]
        if alt:
            believed = t_to - alt[-1]
            res.add("C11", "held_time", f"C11:{leg}:held_time", i, f"propagation {g} starts at the held time {float(t_from)!r}", f"steps sum to {float(total)!r} = distance from {float(alt[-1])!r} (an earlier time of this history) to {float(t_to)!r}", leg)
            if not dts and abs(delta) > SUM_TOL:
                # no step at all for a move between two different times: also what C10 forbids, whatever the runtime believed
                res.add("C10", "sum", f"C10:{leg}:sum:no_steps_for_a_move", i, f"steps from {float(t_from)!r} to {float(t_to)!r} sum to {float(delta)!r} within 1e-9", "no prediction step was made", leg)
        else:
            res.add("C10", "sum", f"C10:{leg}:sum:{direction}", i, f"steps from {float(t_from)!r} to {float(t_to)!r} sum to {float(delta)!r} within 1e-9", f"sum={float(total)!r} steps={_fmt(dts)}", leg)
    if delta == 0 and believed == 0 and dts:
        res.add("C10", "zero_step", f"C10:{leg}:zero_step", i, "no step when the two times coincide", f"steps={_fmt(dts)}", leg)
    bad_dir = [d for d in fd if d * believed < 0]
    if bad_dir:
        bdir = "fwd" if believed > 0 else "bwd"
        res.add("C10", "direction", f"C10:{leg}:direction:{bdir}", i, f"all steps point {bdir} (from {float(t_to - believed)!r} to {float(t_to)!r})", f"steps={_fmt(dts)}", leg)
    big = [d for d in fd if abs(d) > max_dt + BOUND_SLACK]
    if big:
        bdir = "fwd" if believed > 0 else "bwd"
        res.add("C10", "step_bound", f"C10:{leg}:step_bound:{bdir}", i, f"|dt| <= {mdt!r} (+1e-9)", f"steps={_fmt(dts)}", leg)
    if any(d == 0 for d in fd) and delta != 0:
        P["probe:zero_length_step_inside_move"] += 1
    return {"fwd": "F", "bwd": "B", "zero": "Z"}[direction] + ("0" if not dts else "1" if len(dts) == 1 else "n")


def _fmt(dts):
    if len(dts) > 8:
        return f"[{', '.join(repr(d) for d in dts[:4])}, ... {len(dts)} steps ..., {', '.join(repr(d) for d in dts[-2:])}]"
    return repr(list(dts))


def compare_legs(schedule, plan, py, cpp, res: Result):
    """C11: the Python and C++ runtimes issue the same sequence of filter calls for the same history."""
    bit_equal = 0
    for i, (op, (missing, _g, _rd, _h)) in enumerate(zip(schedule["ops"], plan)):
        if missing or i >= len(py) or i not in cpp:
            continue
        a = [c for c in py[i]["calls"] if not (c[0] == "P" and abs(c[1]) < 2e-9)]
        b = [c for c in cpp[i]["calls"] if not (c[0] == "P" and abs(c[1]) < 2e-9)]
        ka = [("P",) if c[0] == "P" else ("S", c[7], c[2]) for c in a]
        kb = [("P",) if c[0] == "P" else ("S", c[7], c[2]) for c in b]
        if ka != kb:
            res.add("C11", "py_vs_cpp_ops", "C11:both:py_vs_cpp_ops", i, f"same call sequence; python={_ops(ka)}", f"c++={_ops(kb)}", "both")
            return
        for x, y in zip(a, b):
            if x[0] == "P" and abs(x[1] - y[1]) > 1e-9:
                res.add("C11", "py_vs_cpp_dt", "C11:both:py_vs_cpp_dt", i, f"same dt within 1e-9; python={x[1]!r}", f"c++={y[1]!r}", "both")
                return
        if py[i]["ret"] == cpp[i]["ret"]:
            bit_equal += 1
    res.stats["probe:py_cpp_ticks_bit_equal"] += bit_equal


def _ops(k):
    s = "".join("P" if x[0] == "P" else f"S{x[1]}#{x[2]} " for x in k)
    return s if len(s) < 200 else s[:100] + "..." + s[-60:]


def execute(schedule) -> Result:
    res = Result()
    plan = fold_plan(schedule)
    cfg = schedule["config"]
    res.log.append("cfg " + json.dumps(cfg, sort_keys=True))
    py = run_py(schedule, plan)
    check_leg(schedule, plan, py, "py", res)
    trunc_py = res.truncated
    legs = os.environ.get("FSIM_LEGS", "py,cpp")
    info = _CPP.get((cfg["has_control"], cfg["has_cal"]))
    if "cpp" in legs and info is not None and not info["compiled"]:
        # the runtime cannot even be instantiated in this Tag configuration
        combo = f"control={int(cfg['has_control'])}&calibration={int(cfg['has_cal'])}"
        res.add("C12", "compile", f"C12:cpp:compile:{combo}:standin", 0, f"ManagedFilter<Impl> with {combo} compiles", info["error"], "cpp")
        res.stats["probe:cpp_leg_unavailable"] += 1
        legs = "py"
    if "cpp" in legs and cfg["has_control"]:
        neg = _CPP.get(("neg", cfg["has_cal"]))
        if neg is not None and neg["compiled"]:
            res.add("C11", "missing_control", "C11:cpp:missing_control_compiles", 0, "tick(t) without control does not compile for a filter with control inputs", "it compiles", "cpp")
        res.stats["probe:cpp_negative_compile_checked"] += 1
    if "cpp" in legs:
        cpp, err = run_cpp(schedule, plan)
        if cpp is None:
            raise RuntimeError(err)
        res.truncated = None
        check_leg(schedule, plan, cpp, "cpp", res)
        if trunc_py is None and res.truncated is None:
            compare_legs(schedule, plan, py, cpp, res)
        res.truncated = trunc_py or res.truncated
        res.stats[f"probe:tag_control={int(cfg['has_control'])}_calibration={int(cfg['has_cal'])}"] += 1
    res.stats[f"probe:max_dt={xf(cfg['max_dt_sec'])}"] += 1
    res.stats["probe:generator_" + cfg["generator"]] += 1
    if cfg.get("sibling_max_dt_index") is not None:
        res.stats["fault:sibling_filter"] += 1
    for f in schedule.get("faults", []):
        res.stats["fault:" + f] += 1
    return res


def simplify(schedule):
    """Candidates: round times to coarser grids; drop calibration/control; smaller tokens."""
    for g in (1.0, 0.5, 0.125, 0.001):
        s = json.loads(json.dumps(schedule))
        changed = False
        for op in s["ops"]:
            t = xf(op["t_out"])
            r = round(t / g) * g
            if r != t:
                op["t_out"] = fx(r)
                changed = True
            for rd in op.get("readings") or []:
                t = xf(rd["t"])
                r = round(t / g) * g
                if r != t:
                    rd["t"] = fx(r)
                    changed = True
        t = xf(s["init"]["time"])
        if round(t / g) * g != t:
            s["init"]["time"] = fx(round(t / g) * g)
            changed = True
        if changed:
            yield s
    if schedule["config"]["has_cal"]:
        s = json.loads(json.dumps(schedule))
        s["config"]["has_cal"] = False
        yield s
    if schedule["init"]["state_tok"] != 1:
        s = json.loads(json.dumps(schedule))
        s["init"]["state_tok"], s["init"]["cov_tok"] = 1, 2
        yield s
