"""Generic check driver: bin/check <property> --tier quick|thorough | --replay FILE | --digests ..."""
from __future__ import annotations

import argparse
import collections
import json
import os
import subprocess
import sys
import time
import traceback

from fsim import core
from fsim.plans import PLANS


def log(*a):
    print(*a, flush=True)


def cmd_replay(prop, path):
    res, sched = core.replay_file(path)
    want = sched.get("violation")
    mine = [v for v in res.violations if v["property"] == prop]
    log(f"replay {path}: {len(res.violations)} violation(s), {len(mine)} for {prop}; digest={res.digest()[:16]}")
    for v in mine[:5]:
        log("  ", json.dumps(v, sort_keys=True))
    if want and not any(core.same_class(v, want) for v in mine):
        log(f"replay did NOT reproduce recorded violation {want['signature']}")
        return core.EXIT_OK if not mine else core.EXIT_VIOLATION
    if mine:
        known = core.load_known()
        fresh = [v for v in mine if not core.is_known_open(v, known)]
        if not fresh:
            for v in mine[:1]:
                log(f"KNOWN-FINDING: property={prop} {core.is_known_open(v, known)['what']}")
            return core.EXIT_OK
        log(f"VIOLATION property={prop} replay={path}")
        log(f"REPRODUCED signature={fresh[0]['signature']} clause={fresh[0]['clause']} op_index={fresh[0]['op_index']}")
        return core.EXIT_VIOLATION
    return core.EXIT_OK


def cmd_digests(prop, tier, batch_seed, spec):
    """spec = world:idx,idx;world:idx ... -> prints json {world:{idx:digest}} (fresh-interpreter determinism leg)"""
    out = {}
    for part in spec.split(";"):
        wname, idxs = part.split(":")
        w = core.world(wname)
        if hasattr(w, "prepare"):
            w.prepare(tier)
        out[wname] = {}
        core.preimport()
        for i in [int(x) for x in idxs.split(",") if x]:
            seed = core.run_seed(batch_seed, wname, prop, i)
            _, c = core.isolated_run(wname, prop, tier, seed, i, batch_seed, 300)
            out[wname][str(i)] = c.get("digest", c.get("harness_error"))
    print("DIGESTS " + json.dumps(out, sort_keys=True))
    return 0


def determinism_selftest(prop, tier, batch_seed, results_by_world, sample=4):
    """Re-run a sample of runs (a) in this process tree again and (b) in a fresh interpreter under another PYTHONHASHSEED."""
    spec = []
    expect = {}
    for wname, results in results_by_world.items():
        ok = [c for c in results if "digest" in c]
        # spread the sample over the batch
        pick = ok[:: max(1, len(ok) // sample)][:sample]
        if not pick:
            continue
        spec.append(f"{wname}:" + ",".join(str(c["index"]) for c in pick))
        expect[wname] = {str(c["index"]): c["digest"] for c in pick}
    if not spec:
        return True, "no runs"
    env = dict(os.environ)
    env["PYTHONHASHSEED"] = "4242"
    env["FSIM_NO_REEXEC"] = "1"
    cp = subprocess.run(
        [os.path.join(core.VERIF_DIR, "bin", "check"), prop, "--tier", tier, "--seed", str(batch_seed), "--digests", ";".join(spec)],
        capture_output=True, text=True, env=env, timeout=900,
    )
    line = [l for l in cp.stdout.splitlines() if l.startswith("DIGESTS ")]
    if cp.returncode != 0 or not line:
        return False, f"digest subprocess failed rc={cp.returncode}: {cp.stdout[-400:]} {cp.stderr[-800:]}"
    got = json.loads(line[0][8:])
    n = 0
    for wname, d in expect.items():
        for i, dig in d.items():
            n += 1
            if got.get(wname, {}).get(i) != dig:
                return False, f"digest mismatch world={wname} index={i}: {dig[:16]} vs {str(got.get(wname, {}).get(i))[:16]}"
    return True, f"{n} runs re-executed in a fresh interpreter (PYTHONHASHSEED=4242): identical digests"


def run_check(prop, tier, batch_seed, workers, runs_override=None, budget_override=None, no_shrink=False):
    t0 = time.time()
    plan = PLANS[prop]
    known = core.load_known()
    all_results = {}
    stats = collections.Counter()
    abstract = set()
    nontrivial = set()
    evaluations = 0
    sim_time = 0.0
    ops = 0
    samples = []
    harness_errors = []
    violations = []  # (world, compact)
    other_prop = collections.Counter()
    truncated = collections.Counter()
    world_summaries = {}
    for leg in plan["legs"]:
        wname = leg["world"]
        n = runs_override or leg[tier]["runs"]
        budget = budget_override or leg[tier].get("budget_s")
        tw = time.time()
        results, stopped = core.run_batch(wname, prop, tier, batch_seed, n, workers, leg.get("run_timeout", 120), budget_s=budget, chunk=leg[tier].get("chunk", leg.get("chunk")))
        all_results[wname] = results
        wstats = collections.Counter()
        for c in results:
            if "harness_error" in c:
                harness_errors.append(c["harness_error"])
                continue
            evaluations += 1
            sim_time += c["sim_time"]
            ops += c["ops"]
            for k, v in c["stats"].items():
                if k.startswith("worst_"):
                    stats[k] = max(stats[k], v)
                    continue
                stats[k] += v
                wstats[k] += v
            if c["truncated"]:
                truncated[c["truncated"]] += 1
            abstract.update(f"{wname}|{a}" for a in c["abstract"])
            if c["n_faults"] >= 1 and c["ops"] >= 3 and len(c["abstract"]) >= 2:
                nontrivial.add(c["sched_digest"])
            if "schedule" in c and not c["violations"] and len(samples) < 3:
                samples.append(trim_sample(c["schedule"]))
            mine = [v for v in c["violations"] if v["property"] == prop]
            for v in c["violations"]:
                if v["property"] != prop:
                    other_prop[v["property"]] += 1
            if mine:
                violations.append((wname, c, mine))
        world_summaries[wname] = {"runs": len(results), "wall_s": round(time.time() - tw, 2), "stopped_on_budget": stopped}
    # ---- determinism self-test (harness error if it fails, never a VIOLATION)
    det_ok, det_msg = True, "skipped"
    if not os.environ.get("FSIM_SKIP_DETERMINISM"):
        try:
            det_ok, det_msg = determinism_selftest(prop, tier, batch_seed, all_results, sample=plan.get("det_sample", 4))
        except Exception:
            det_ok, det_msg = False, traceback.format_exc()
    # ---- violations: shrink, write replay, confirm in fresh interpreter
    reported = []
    known_hits = collections.OrderedDict()
    seen_sigs = set()
    for wname, c, mine in violations:
        v = mine[0]
        k = core.is_known_open(v, known)
        if k:
            known_hits.setdefault(k["key"], k)
            continue
        if v["signature"] in seen_sigs:
            continue
        if len(reported) >= 3:
            continue
        seen_sigs.add(v["signature"])
        sched = c["schedule"]
        if not no_shrink:
            try:
                small = core.shrink(wname, sched, v, budget_s=plan.get("shrink_budget_s", 60))
            except Exception:
                small = sched
                harness_errors.append("shrink failed: " + traceback.format_exc())
        else:
            small = sched
        # violation record of the shrunk schedule
        try:
            vs2 = core.isolated_violations(wname, small, 300) or []
            v2 = next((x for x in vs2 if core.same_class(x, v)), v)
        except Exception:
            v2 = v
        path = core.write_replay(prop, small, v2)
        rc, out = core.replay_in_fresh_interpreter(prop, path)
        confirmed = rc == core.EXIT_VIOLATION and "REPRODUCED" in out
        reported.append({"path": path, "violation": v2, "confirmed_fresh": confirmed, "seed": c["seed"], "index": c["index"]})
        if not confirmed:
            harness_errors.append(f"violation {v2['signature']} did not reproduce in a fresh interpreter (rc={rc}): {out[-600:]}")
    wall = time.time() - t0
    # ---- evidence
    cov = {
        "evaluations": evaluations,
        "distinct_nontrivial": len(nontrivial),
        "rule": plan["rule"],
        "samples": samples or [{"note": "no violation-free sample kept"}],
        "runs_per_hour": round(evaluations / max(wall, 1e-9) * 3600),
        "seeds_per_hour": round(evaluations / max(wall, 1e-9) * 3600),
        "simulated_seconds": sim_time,
        "operations": ops,
        "faults_fired": {k[6:]: v for k, v in sorted(stats.items()) if k.startswith("fault:")},
        "probes": {k[6:]: v for k, v in sorted(stats.items()) if k.startswith("probe:")},
        "counters": {k: v for k, v in sorted(stats.items()) if not k.startswith(("fault:", "probe:"))},
        "holes": sorted(k[6:] for k in plan.get("expect_probes", []) if stats.get(k, 0) == 0),
        "distinct_abstract_states": len(abstract),
        "abstract_state_measure": plan.get("abstract_measure", ""),
        "guard_truncations": dict(truncated),
        "worlds": world_summaries,
        "components": plan.get("components", {}),
        "determinism_selftest": det_msg,
        "other_property_violations_seen": dict(other_prop),
        "known_findings_matched": list(known_hits),
        "harness_errors": harness_errors[:5],
        "replays": [r["path"] for r in reported],
        "exhaustive": False,
    }
    cov.update(plan.get("extra_coverage", {}))
    ev = {
        "property_id": prop, "tier": tier, "seed": batch_seed, "level": plan["level"], "coverage": cov,
        "assumptions": plan.get("assumptions", []), "wall_s": round(wall, 2), "violations": len(reported),
    }
    try:
        core.write_evidence(prop, ev)
    except AssertionError as e:
        harness_errors.append(f"evidence invalid: {e}")
        cov["distinct_nontrivial"] = max(cov["distinct_nontrivial"], 0)
    # ---- report
    log(f"[{prop}] tier={tier} seed={batch_seed} runs={evaluations} ops={ops} sim_s={sim_time:.1f} distinct_nontrivial={len(nontrivial)} abstract={len(abstract)} wall={wall:.1f}s")
    log(f"[{prop}] faults fired: {cov['faults_fired']}")
    if cov["holes"]:
        log(f"[{prop}] coverage holes (probes at 0): {cov['holes']}")
    log(f"[{prop}] determinism: {det_msg}")
    for k in known_hits.values():
        log(f"KNOWN-FINDING: property={prop} {k['what']}")
    for r in reported:
        if r["confirmed_fresh"]:
            log(f"VIOLATION property={prop} replay={r['path']}")
            log(f"   {json.dumps(r['violation'], sort_keys=True)}")
    if harness_errors or not det_ok:
        log(f"[{prop}] HARNESS ERROR(S):")
        for h in harness_errors[:5]:
            log(h)
        if not det_ok:
            log("determinism self-test failed: " + det_msg)
        if any(r["confirmed_fresh"] for r in reported):
            return core.EXIT_VIOLATION
        return core.EXIT_HARNESS
    if any(r["confirmed_fresh"] for r in reported):
        return core.EXIT_VIOLATION
    return core.EXIT_OK


def trim_sample(s, max_ops=6):
    s = json.loads(json.dumps(s))
    if len(s.get("ops", [])) > max_ops:
        n = len(s["ops"])
        s["ops"] = s["ops"][:max_ops]
        s["ops_omitted"] = n - max_ops
    return s


def main(argv=None):
    ap = argparse.ArgumentParser()
    ap.add_argument("property")
    ap.add_argument("--tier", default=os.environ.get("VERIF_TIER", "quick"), choices=["quick", "thorough"])
    ap.add_argument("--seed", type=int, default=int(os.environ.get("VERIF_SEED", "0") or 0))
    ap.add_argument("--workers", type=int, default=int(os.environ.get("FSIM_WORKERS", "0") or 0) or min(16, os.cpu_count() or 4))
    ap.add_argument("--runs", type=int)
    ap.add_argument("--budget", type=float)
    ap.add_argument("--replay")
    ap.add_argument("--digests")
    ap.add_argument("--no-shrink", action="store_true")
    a = ap.parse_args(argv)
    os.chdir(core.REPO)
    try:
        if a.replay:
            rp = a.replay if os.path.isabs(a.replay) else os.path.join(os.environ.get("FSIM_ORIG_CWD", core.VERIF_DIR), a.replay)
            return cmd_replay(a.property, rp)
        if a.digests:
            return cmd_digests(a.property, a.tier, a.seed, a.digests)
        if a.property not in PLANS:
            log(f"unknown or not-applicable property {a.property}")
            return core.EXIT_HARNESS
        return run_check(a.property, a.tier, a.seed, a.workers, a.runs, a.budget, a.no_shrink)
    except Exception:
        traceback.print_exc()
        return core.EXIT_HARNESS


if __name__ == "__main__":
    sys.exit(main())
