"""Reference models (oracles): a name-keyed reference EKF built straight from the symbolic definition,
exact-rational NIS decision, covariance validity helpers.  Never looks at FormaK's argument lists, never uses CSE/simplify."""
from __future__ import annotations

import math
from fractions import Fraction

import mpmath
import numpy as np
import sympy
from sympy import Symbol

from fsim import models
from fsim.core import xf


NUMERIC = (OverflowError, ZeroDivisionError, ValueError, FloatingPointError, np.linalg.LinAlgError)


class RefEKF:
    def __init__(self, d):
        self.d = d
        self.S = sorted(d["state"])  # the library's documented layout: name order
        self.U = sorted(d["control"])
        self.C = sorted(d["calibration"])
        self.order = ["dt"] + d["state"] + d["control"] + d["calibration"]  # my own argument order (declaration order)
        args = [Symbol(n) for n in self.order]
        self._args = args

        def lam(e):
            return sympy.lambdify(args, e, modules="math")

        self.f_expr = {k: models.parse(v) for k, v in d["state_model"].items()}
        self.f = {k: lam(e) for k, e in self.f_expr.items()}
        self.G = {(r, c): lam(sympy.diff(self.f_expr[r], Symbol(c))) for r in self.S for c in self.S}
        self.V = {(r, c): lam(sympy.diff(self.f_expr[r], Symbol(c))) for r in self.S for c in self.U}
        self.h_expr = {k: {r: models.parse(e) for r, e in sd["readings"].items()} for k, sd in d["sensors"].items()}
        self.h = {k: {r: lam(e) for r, e in rd.items()} for k, rd in self.h_expr.items()}
        self.H = {k: {(r, c): lam(sympy.diff(e, Symbol(c))) for r, e in rd.items() for c in self.S} for k, rd in self.h_expr.items()}
        self.readings = {k: sorted(sd["readings"]) for k, sd in d["sensors"].items()}
        self.Q = {k: np.diag([xf(sd["noise"][r]) for r in self.readings[k]]) for k, sd in d["sensors"].items()}
        self.M = np.diag([xf(d["process_noise"][u]) for u in self.U]) if self.U else np.zeros((0, 0))
        self.cm = {k: xf(v) for k, v in d["calibration_map"].items()}

    def vals(self, dt, x, u):
        v = {"dt": dt}
        v.update(x)
        v.update({k: 0.0 for k in self.U})
        if u:
            v.update(u)
        v.update(self.cm)
        return [v[n] for n in self.order]

    # x: dict name->float ; P: ndarray in sorted-name order
    def predict(self, dt, x, P, u):
        try:
            with np.errstate(all="ignore"):
                return self._predict(dt, x, P, u)
        except NUMERIC:
            return None

    def update(self, key, x, P, z, k):
        try:
            with np.errstate(all="ignore"):
                r = self._update(key, x, P, z, k)
        except NUMERIC:
            return None
        if not (np.all(np.isfinite(r["S"])) and np.all(np.isfinite(r["P_post"])) and math.isfinite(r["nis"])):
            return None
        return r

    def _predict(self, dt, x, P, u):
        a = self.vals(dt, x, u)
        xn = {s: self.f[s](*a) for s in self.S}
        G = np.array([[self.G[(r, c)](*a) for c in self.S] for r in self.S], dtype=float).reshape(len(self.S), len(self.S))
        V = np.array([[self.V[(r, c)](*a) for c in self.U] for r in self.S], dtype=float).reshape(len(self.S), len(self.U))
        GPG = G @ P @ G.T
        VMV = V @ self.M @ V.T
        return xn, GPG + VMV, {"G": G, "V": V, "GPG": GPG, "VMV": VMV}

    def spot_check(self, dt, x, u):
        """keep lambdify out of the trusted base: evaluate f by exact substitution"""
        subs = {Symbol(n): v for n, v in zip(self.order, self.vals(dt, x, u))}
        return {s: float(self.f_expr[s].evalf(30, subs=subs)) for s in self.S}

    def sensor(self, key, x, P):
        a = self.vals(0.0, x, None)
        rn = self.readings[key]
        hx = np.array([[self.h[key][r](*a)] for r in rn], dtype=float)
        H = np.array([[self.H[key][(r, c)](*a) for c in self.S] for r in rn], dtype=float)
        S = H @ P @ H.T + self.Q[key]
        return hx, H, S

    def _update(self, key, x, P, z, k):
        """z: dict reading name -> float. Returns dict with everything the oracles need."""
        rn = self.readings[key]
        hx, H, S = self.sensor(key, x, P)
        zv = np.array([[z[r]] for r in rn], dtype=float)
        inn = zv - hx
        m = len(rn)
        Sinv = np.linalg.inv(S)
        nis = float((inn.T @ Sinv @ inn).item())
        thr = None if k is None else k * math.sqrt(2 * m) + m
        K = P @ H.T @ Sinv
        xv = np.array([[x[s]] for s in self.S]) + K @ inn
        KHP = K @ H @ P
        return {"hx": hx, "H": H, "S": S, "inn": inn, "nis": nis, "thr": thr, "m": m, "K": K, "x_post": {s: float(xv[i, 0]) for i, s in enumerate(self.S)},
                "P_post": P - KHP, "KHP": KHP, "condS": float(np.linalg.cond(S)) if m else 1.0}


# --------------------------------------------------------------------------- exact NIS decision
def exact_nis(inn, S):
    """z^T S^-1 z in exact rational arithmetic on the float inputs (Gaussian elimination over Fractions)."""
    m = len(inn)
    A = [[Fraction(float(S[i][j])) for j in range(m)] + [Fraction(float(inn[i]))] for i in range(m)]
    for c in range(m):
        piv = next((r for r in range(c, m) if A[r][c] != 0), None)
        if piv is None:
            return None
        A[c], A[piv] = A[piv], A[c]
        for r in range(m):
            if r != c and A[r][c] != 0:
                f = A[r][c] / A[c][c]
                A[r] = [a - f * b for a, b in zip(A[r], A[c])]
    y = [A[i][m] / A[i][i] for i in range(m)]
    return sum(Fraction(float(inn[i])) * y[i] for i in range(m))


def exact_threshold(k, m):
    """k*sqrt(2m)+m as (mpmath 60 digits, exact Fraction or None)."""
    mpmath.mp.dps = 60
    val = mpmath.mpf(Fraction(k).numerator) / mpmath.mpf(Fraction(k).denominator) * mpmath.sqrt(2 * m) + m
    r = math.isqrt(2 * m)
    exact = Fraction(k) * r + m if r * r == 2 * m else None
    return val, exact


def decide(inn, S, k, m, band=1e-9):
    """-> ('discard'|'keep'|'either', nis_exact_float, thr_float)"""
    nis = exact_nis(inn, S)
    thr, exact = exact_threshold(k, m)
    if nis is None:
        return "either", float("nan"), float(thr)
    if exact is not None and nis == exact:
        return "keep", float(nis), float(thr)  # exact tie: NIS > thr is false
    mpmath.mp.dps = 60
    n = mpmath.mpf(nis.numerator) / mpmath.mpf(nis.denominator)
    if abs(n - thr) <= band * thr:
        return "either", float(n), float(thr)
    return ("discard" if n > thr else "keep"), float(n), float(thr)


# --------------------------------------------------------------------------- covariance helpers
def cov_scale(P):
    return max(1.0, float(np.max(np.abs(P))) if P.size else 1.0)


def asym(P):
    return float(np.max(np.abs(P - P.T))) / cov_scale(P) if P.size else 0.0


def min_eig(P):
    if not P.size:
        return 0.0
    return float(np.linalg.eigvalsh((P + P.T) / 2).min())


def strictly_valid(P, tol=1e-12):
    """symmetric and PSD up to rounding relative to magnitude (used to decide 'refused a valid covariance')"""
    return asym(P) <= tol and min_eig(P) >= -tol * cov_scale(P)


def rel(a, b):
    a, b = np.asarray(a, dtype=float), np.asarray(b, dtype=float)
    if a.shape != b.shape:
        return float("inf")
    if not a.size:
        return 0.0
    return float(np.max(np.abs(a - b))) / (1.0 + float(np.max(np.abs(b))))
