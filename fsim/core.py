"""fsim core: seeds, schedule I/O, batch runner, shrinking, evidence, CLI glue.

One integer (VERIF_SEED) decides everything: run i of a batch for world w uses
seed_i = splitmix64-mix(VERIF_SEED, w, i); inside a run one random.Random(seed_i)
is the only source of choice.  A run has two stages: generate(rng) -> schedule
(a JSON document of literal API calls) and execute(schedule) (no PRNG) against
the real code + reference models.  The schedule file is the replay file.
"""
from __future__ import annotations

import collections
import faulthandler
import hashlib
import json
import multiprocessing
import os
import random
import signal
import subprocess
import sys
import time
import traceback
from concurrent.futures import ProcessPoolExecutor, as_completed

VERIF_DIR = os.path.dirname(os.path.dirname(os.path.abspath(__file__)))
REPO = os.environ.get("FSIM_REPO", "/repo")
MASK = (1 << 64) - 1

EXIT_OK, EXIT_VIOLATION, EXIT_HARNESS = 0, 1, 2


# --------------------------------------------------------------------------- seeds
def splitmix64(x: int) -> int:
    x = (x + 0x9E3779B97F4A7C15) & MASK
    z = x
    z = ((z ^ (z >> 30)) * 0xBF58476D1CE4E5B9) & MASK
    z = ((z ^ (z >> 27)) * 0x94D049BB133111EB) & MASK
    return z ^ (z >> 31)


def mix64(*parts: int) -> int:
    h = 0x243F6A8885A308D3
    for p in parts:
        h = splitmix64(h ^ (p & MASK))
    return h


def str_id(s: str) -> int:
    return int.from_bytes(hashlib.sha256(s.encode()).digest()[:8], "big")


def run_seed(batch_seed: int, world: str, prop: str, index: int) -> int:
    return mix64(batch_seed, str_id(world), str_id(prop), index)


# --------------------------------------------------------------------------- floats
def fx(x) -> str:
    return float(x).hex()


def xf(s) -> float:
    if isinstance(s, (int, float)):
        return float(s)
    return float.fromhex(s)


# --------------------------------------------------------------------------- violations
class Violation(dict):
    """property, clause, signature, op_index, expected, observed, leg"""

    def __init__(self, prop, clause, signature, op_index, expected, observed, leg="py"):
        super().__init__(
            property=prop,
            clause=clause,
            signature=signature,
            op_index=op_index,
            expected=str(expected)[:600],
            observed=str(observed)[:600],
            leg=leg,
        )


class Result:
    """Outcome of executing one schedule."""

    def __init__(self):
        self.violations: list[Violation] = []
        self.log: list[str] = []  # event log (digest = determinism witness)
        self.stats = collections.Counter()  # fault kinds fired, probes, op counts
        self.abstract: list[str] = []  # abstract state/tick signatures
        self.sim_time = 0.0
        self.ops = 0
        self.truncated = None

    def digest(self) -> str:
        h = hashlib.sha256()
        for line in self.log:
            h.update(line.encode())
            h.update(b"\n")
        for v in self.violations:
            h.update(json.dumps(v, sort_keys=True).encode())
        return h.hexdigest()

    def add(self, *a, **k):
        self.violations.append(Violation(*a, **k))

    def compact(self) -> dict:
        return {
            "violations": self.violations,
            "digest": self.digest(),
            "stats": dict(self.stats),
            "abstract": sorted(set(self.abstract)),
            "sim_time": self.sim_time,
            "ops": self.ops,
            "truncated": self.truncated,
        }


def schedule_digest(schedule: dict) -> str:
    s = {k: v for k, v in schedule.items() if k not in ("violation", "seed", "run_index", "batch_seed")}
    # insertion order is meaningful (declaration order of symbols, sensors, noise entries): do not sort keys
    return hashlib.sha256(json.dumps(s).encode()).hexdigest()[:16]


# --------------------------------------------------------------------------- timeouts
class RunTimeout(Exception):
    pass


def _alarm(signum, frame):
    raise RunTimeout()


class time_limit:
    def __init__(self, seconds):
        self.seconds = seconds

    def __enter__(self):
        self.old = signal.signal(signal.SIGALRM, _alarm)
        signal.setitimer(signal.ITIMER_REAL, self.seconds)

    def __exit__(self, *a):
        signal.setitimer(signal.ITIMER_REAL, 0)
        signal.signal(signal.SIGALRM, self.old)
        return False


# --------------------------------------------------------------------------- worlds registry
_WORLDS = {}


def world(name):
    if name not in _WORLDS:
        mod = __import__(f"fsim.worlds.{name}", fromlist=["x"])
        _WORLDS[name] = mod
    return _WORLDS[name]


def one_run(world_name: str, prop: str, tier: str, seed: int, index: int, batch_seed: int, timeout: float):
    """generate + execute one run. Returns (schedule, compact result) - pure function of seed and code."""
    w = world(world_name)
    rng = random.Random(seed)
    try:
        with time_limit(timeout):
            schedule = w.generate(rng, prop, tier)
            schedule.update(fsim=1, world=world_name, property=prop, seed=seed, batch_seed=batch_seed, run_index=index)
            res = w.execute(schedule)
    except RunTimeout:
        return None, {"harness_error": f"run timeout after {timeout}s world={world_name} seed={seed}"}
    except Exception:
        return None, {"harness_error": f"world={world_name} seed={seed}\n" + traceback.format_exc()}
    c = res.compact()
    c["sched_digest"] = schedule_digest(schedule)
    c["n_faults"] = count_faults(schedule)
    return schedule, c


def count_faults(schedule) -> int:
    n = 0
    real = lambda fs: sum(1 for f in fs if not (isinstance(f, str) and f.startswith("probe")))  # noqa: E731
    for op in schedule.get("ops", []):
        n += real(op.get("faults", []))
        for r in op.get("readings", []) or []:
            n += real(r.get("faults", []))
    return n + real(schedule.get("faults", []))


def isolated_run(world_name, prop, tier, seed, index, batch_seed, timeout):
    """one_run in a forked child: a run must be a pure function of (seed, code), so whatever state the system under test
    leaves behind in the process (module-level caches, class attributes, mutable defaults) must not reach the next run.
    The parent only ever imports the code; every run starts from that pristine image."""
    if os.environ.get("FSIM_NO_FORK"):
        return one_run(world_name, prop, tier, seed, index, batch_seed, timeout)
    out = isolated_call(lambda: one_run(world_name, prop, tier, seed, index, batch_seed, timeout), timeout)
    if out is None:
        return None, {"harness_error": f"isolated run produced no result (timeout or crash) world={world_name} seed={seed}"}
    return out


def isolated_violations(world_name, schedule, timeout):
    """violations of executing a schedule, in a forked child (used by the shrinker)"""
    def fn():
        with time_limit(timeout):
            return list(world(world_name).execute(schedule).violations)

    if os.environ.get("FSIM_NO_FORK"):
        return fn()
    return isolated_call(fn, timeout)


def isolated_call(fn, timeout):
    import pickle

    r, w = os.pipe()
    pid = os.fork()
    if pid == 0:
        code = 0
        try:
            os.close(r)
            res = fn()
            with os.fdopen(w, "wb") as f:
                pickle.dump(res, f, protocol=pickle.HIGHEST_PROTOCOL)
        except BaseException:  # noqa: BLE001
            code = 1
        finally:
            os._exit(code)
    os.close(w)
    data = b""
    deadline = time.time() + timeout + 60
    import select

    with os.fdopen(r, "rb") as f:
        while True:
            left = deadline - time.time()
            if left <= 0:
                break
            ready, _, _ = select.select([f], [], [], min(left, 5.0))
            if ready:
                chunk = f.read1(1 << 20)
                if not chunk:
                    break
                data += chunk
    try:
        if time.time() >= deadline:
            os.kill(pid, signal.SIGKILL)
    except ProcessLookupError:
        pass
    os.waitpid(pid, 0)
    if not data:
        return None
    return pickle.loads(data)


def preimport():
    """import the system under test once, before any fork: children inherit the pristine modules"""
    for m in ("formak.python", "formak.cpp", "formak.runtime", "formak.ui", "formak.ui_state_machine", "sklearn.base", "sklearn.model_selection", "scipy.optimize"):
        try:
            __import__(m)
        except Exception:  # noqa: BLE001
            pass


def _chunk_worker(args):
    world_name, prop, tier, batch_seed, indices, timeout, keep_samples = args
    faulthandler.enable()
    out = []
    for i in indices:
        seed = run_seed(batch_seed, world_name, prop, i)
        schedule, c = isolated_run(world_name, prop, tier, seed, i, batch_seed, timeout)
        c["index"] = i
        c["seed"] = seed
        if schedule is not None and (c["violations"] or i in keep_samples):
            c["schedule"] = schedule
        out.append(c)
    return out


def run_batch(world_name, prop, tier, batch_seed, n_runs, workers, timeout, budget_s=None, chunk=None, first_index=0):
    """Run n_runs runs over `workers` processes. Results are ordered by index, independent of worker assignment."""
    w = world(world_name)
    if hasattr(w, "prepare"):
        w.prepare(tier)  # e.g. compile C++ legs once, before forking
    preimport()
    indices = list(range(first_index, first_index + n_runs))
    chunk = chunk or max(1, min(25, n_runs // (workers * 4) or 1))
    chunks = [indices[i : i + chunk] for i in range(0, len(indices), chunk)]
    keep = set(indices[:3])
    results = []
    t0 = time.time()
    ctx = multiprocessing.get_context("fork")
    stopped_early = False
    with ProcessPoolExecutor(max_workers=workers, mp_context=ctx) as ex:
        futs = [ex.submit(_chunk_worker, (world_name, prop, tier, batch_seed, ch, timeout, keep)) for ch in chunks]
        try:
            for f in as_completed(futs, timeout=(budget_s * 4 + 120) if budget_s else None):
                results.extend(f.result())
                if budget_s and time.time() - t0 > budget_s and len(results) >= min(8, n_runs):  # never stop on fewer than 8 runs (loaded machine)
                    stopped_early = True
                    for g in futs:
                        g.cancel()
                    break
        except Exception:
            for g in futs:
                g.cancel()
            raise
    results.sort(key=lambda c: c["index"])
    return results, stopped_early


# --------------------------------------------------------------------------- shrinking (ddmin)
def ddmin(items: list, test) -> list:
    """Classic ddmin: smallest sublist (by removal) for which test(sublist) is True."""
    n = 2
    items = list(items)
    while len(items) >= 2:
        size = max(1, len(items) // n)
        subsets = [items[i : i + size] for i in range(0, len(items), size)]
        reduced = False
        for i in range(len(subsets)):
            complement = [x for j, s in enumerate(subsets) if j != i for x in s]
            if test(complement):
                items = complement
                n = max(n - 1, 2)
                reduced = True
                break
        if not reduced:
            if n >= len(items):
                break
            n = min(len(items), n * 2)
    if len(items) == 1 and test([]):
        return []
    return items


def same_class(v, target) -> bool:
    return v["property"] == target["property"] and v["clause"] == target["clause"] and v["signature"] == target["signature"]


def shrink(world_name: str, schedule: dict, target: Violation, budget_s: float = 60.0, run_timeout: float = 60.0) -> dict:
    w = world(world_name)
    t_end = time.time() + budget_s
    calls = [0]

    def fails(s) -> bool:
        if time.time() > t_end:
            return False
        calls[0] += 1
        try:
            vs = isolated_violations(world_name, s, run_timeout)
        except Exception:
            return False
        return bool(vs) and any(same_class(v, target) for v in vs)

    best = json.loads(json.dumps(schedule))
    best.pop("violation", None)

    # (1) ops
    def with_ops(ops):
        s = dict(best)
        s["ops"] = ops
        return s

    if len(best.get("ops", [])) > 1:
        best["ops"] = ddmin(best["ops"], lambda ops: fails(with_ops(ops)))
    # (2) readings inside ops
    for idx in range(len(best.get("ops", []))):
        rd = best["ops"][idx].get("readings")
        if rd and len(rd) >= 1:

            def with_rd(r, idx=idx):
                s = json.loads(json.dumps(best))
                s["ops"][idx]["readings"] = r
                return s

            best["ops"][idx]["readings"] = ddmin(rd, lambda r: fails(with_rd(r)))
    # (3) world-specific simplifications (greedy, repeated until no progress)
    if hasattr(w, "simplify"):
        progress = True
        while progress and time.time() < t_end:
            progress = False
            for cand in w.simplify(best):
                if time.time() > t_end:
                    break
                if fails(cand):
                    best = cand
                    progress = True
                    break
    best["shrink"] = {"executions": calls[0], "ops_before": len(schedule.get("ops", [])), "ops_after": len(best.get("ops", []))}
    return best


# --------------------------------------------------------------------------- known findings
def load_known():
    p = os.path.join(VERIF_DIR, "known_findings.json")
    if not os.path.exists(p):
        return []
    return json.load(open(p)).get("findings", [])


def is_known_open(v, known) -> dict | None:
    for k in known:
        if k.get("status") == "open" and k["property"] == v["property"] and k["key"] == v["signature"]:
            return k
    return None


# --------------------------------------------------------------------------- replay files
def write_replay(prop, schedule, violation) -> str:
    d = os.path.join(VERIF_DIR, "replays" if os.path.realpath(REPO) == "/repo" else "replays_scratch", prop)
    os.makedirs(d, exist_ok=True)
    schedule = dict(schedule)
    schedule["violation"] = violation
    name = f"{schedule.get('seed', 0)}-{schedule_digest(schedule)}.json"
    path = os.path.join(d, name)
    with open(path, "w") as f:
        json.dump(schedule, f, indent=1)  # key order preserved: declaration order is part of the schedule
    return path


def replay_file(path) -> Result:
    s = json.load(open(path))
    w = world(s["world"])
    if hasattr(w, "prepare"):
        w.prepare("replay")
    return w.execute(s), s


def replay_in_fresh_interpreter(prop, path, timeout=600):
    """Returns (exit_code, stdout)."""
    env = dict(os.environ)
    cp = subprocess.run(
        [os.path.join(VERIF_DIR, "bin", "check"), prop, "--replay", path],
        capture_output=True,
        text=True,
        timeout=timeout,
        env=env,
    )
    return cp.returncode, cp.stdout + cp.stderr


# --------------------------------------------------------------------------- evidence
def write_evidence(prop, payload: dict):
    # runs against another tree (FSIM_REPO: mutation self-tests) must never overwrite the evidence of /repo itself
    d = os.path.join(VERIF_DIR, "evidence" if os.path.realpath(REPO) == "/repo" else "evidence_scratch")
    os.makedirs(d, exist_ok=True)
    validate_evidence(payload)
    tmp = os.path.join(d, f".{prop}.json.tmp")
    with open(tmp, "w") as f:
        json.dump(payload, f, indent=1, sort_keys=True, default=str)
    os.replace(tmp, os.path.join(d, f"{prop}.json"))


def validate_evidence(p):
    for k in ("property_id", "tier", "seed", "level", "coverage", "wall_s"):
        assert k in p, f"evidence missing {k}"
    assert p["tier"] in ("quick", "thorough")
    assert isinstance(p["seed"], int)
    c = p["coverage"]
    if p["level"] in ("exploration", "fault_enumeration"):
        assert isinstance(c["evaluations"], int) and c["evaluations"] >= 1
        assert isinstance(c["distinct_nontrivial"], int) and c["distinct_nontrivial"] >= 2, "distinct_nontrivial < 2"
        assert isinstance(c["rule"], str)
        assert isinstance(c["samples"], list) and len(c["samples"]) >= 1
    try:
        import jsonschema  # optional (tooling venv has it; /venv may not)

        schema = json.load(open("/root/.vp/EVIDENCE.schema.json"))
        jsonschema.validate(p, schema)
    except ImportError:
        pass
    except FileNotFoundError:
        pass
